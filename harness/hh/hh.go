// Package hh is the small framework every property test runs in: it owns the
// seed, the case counts of the tier, the replay tier, minimal-case capture, the
// known-findings file and the evidence file.
package hh

import (
	"encoding/json"
	"flag"
	"fmt"
	"os"
	"path/filepath"
	"sort"
	"strconv"
	"strings"
	"testing"
	"time"

	"pgregory.net/rapid"

	"verifharness/model"
)

// Verdict is what one evaluation of a property on one case reports.
type Verdict struct {
	Err        string   // non-empty: the property is violated on this case
	Skip       string   // non-empty: case is outside the property's domain (counted, never a failure)
	Nontrivial bool     // by the property's stated rule
	Classes    []string // class labels for the distribution histogram
}

func Fail(f string, a ...any) Verdict { return Verdict{Err: fmt.Sprintf(f, a...)} }

type subStats struct {
	Evaluations int            `json:"evaluations"`
	Nontrivial  int            `json:"nontrivial_evaluations"`
	Skipped     int            `json:"skipped_outside_domain"`
	Replayed    int            `json:"replayed_saved_cases"`
	Exhaustive  bool           `json:"exhaustive,omitempty"`
	Classes     map[string]int `json:"classes,omitempty"`
}

// H is the per-property harness state.
type H struct {
	T        *testing.T
	ID       string
	Tier     string
	Seed     uint64
	Shard    int
	Shards   int
	Root     string // /verif
	start    time.Time
	subs     map[string]*subStats
	order    []string
	distinct map[uint64]struct{}
	samples  []any
	viol     int
	known    []Finding
	rule     string
	assume   []string
	extra    map[string]any
	replay   string // VERIF_REPLAY path: run only that case
	excluded int
	fallback any // first case evaluated: the sample when no non-trivial case was reached
	lines    []string
}

// Finding is one line of KNOWN_FINDINGS.txt.
type Finding struct {
	Fixed    bool
	Property string
	Trigger  string
	Case     string
	Text     string
}

func env(k, def string) string {
	if v := os.Getenv(k); v != "" {
		return v
	}
	return def
}

// Start sets up the harness for one property test.
func Start(t *testing.T, id string, rule string, assumptions ...string) *H {
	h := &H{T: t, ID: id, start: time.Now(), subs: map[string]*subStats{}, distinct: map[uint64]struct{}{}, rule: rule, assume: assumptions, extra: map[string]any{}}
	h.Root = env("VERIF_ROOT", "/verif")
	h.Tier = env("VERIF_TIER", "quick")
	if h.Tier != "thorough" {
		h.Tier = "quick"
	}
	s, _ := strconv.ParseUint(env("VERIF_SEED", "0"), 10, 64)
	if s == 0 {
		s = 20261002 // fixed default: rapid treats 0 as "random"
	}
	h.Seed = s
	h.Shards = 1
	if v := os.Getenv("VERIF_SHARD"); v != "" { // "i/n"
		a, b, _ := strings.Cut(v, "/")
		h.Shard, _ = strconv.Atoi(a)
		h.Shards, _ = strconv.Atoi(b)
		if h.Shards < 1 {
			h.Shards = 1
		}
	}
	h.replay = os.Getenv("VERIF_REPLAY")
	h.known = LoadFindings(filepath.Join(h.Root, "KNOWN_FINDINGS.txt"), id)
	os.RemoveAll("testdata/rapid")
	flag.Set("rapid.nofailfile", "true")
	flag.Set("rapid.shrinktime", env("VERIF_SHRINKTIME", "20s"))
	return h
}

// N picks the case count for the tier (thorough counts are per shard).
func (h *H) N(quick, thorough int) int {
	if h.Tier == "thorough" {
		return thorough
	}
	return quick
}

func (h *H) Thorough() bool { return h.Tier == "thorough" }

// LoadFindings parses the known-findings file (missing file = no findings).
func LoadFindings(path, id string) []Finding {
	b, err := os.ReadFile(path)
	if err != nil {
		return nil
	}
	var out []Finding
	for _, line := range strings.Split(string(b), "\n") {
		line = strings.TrimSpace(line)
		var f Finding
		switch {
		case strings.HasPrefix(line, "finding:"):
			line = strings.TrimSpace(strings.TrimPrefix(line, "finding:"))
		case strings.HasPrefix(line, "fixed:"):
			f.Fixed = true
			line = strings.TrimSpace(strings.TrimPrefix(line, "fixed:"))
		default:
			continue
		}
		rest := []string{}
		for _, w := range strings.Fields(line) {
			switch {
			case strings.HasPrefix(w, "property=") && f.Property == "":
				f.Property = strings.TrimPrefix(w, "property=")
			case strings.HasPrefix(w, "trigger=") && f.Trigger == "":
				f.Trigger = strings.TrimPrefix(w, "trigger=")
			case strings.HasPrefix(w, "case=") && f.Case == "":
				f.Case = strings.TrimPrefix(w, "case=")
			default:
				rest = append(rest, w)
			}
		}
		f.Text = strings.Join(rest, " ")
		if f.Property == id {
			out = append(out, f)
		}
	}
	return out
}

// Open reports whether an open (unfixed) finding with this trigger is listed for the property.
func (h *H) Open(trigger string) bool {
	for _, f := range h.known {
		if !f.Fixed && f.Trigger == trigger {
			return true
		}
	}
	return false
}

func (h *H) sub(name string) *subStats {
	s, ok := h.subs[name]
	if !ok {
		s = &subStats{Classes: map[string]int{}}
		h.subs[name] = s
		h.order = append(h.order, name)
	}
	return s
}

func (h *H) note(s *subStats, c any, v Verdict) {
	s.Evaluations++
	if h.fallback == nil {
		h.fallback = c
	}
	if v.Skip != "" {
		s.Skipped++
		s.Classes["skip:"+v.Skip]++
		return
	}
	for _, cl := range v.Classes {
		s.Classes[cl]++
	}
	if v.Nontrivial {
		s.Nontrivial++
		hash := model.Hash(model.JSON(c))
		if _, seen := h.distinct[hash]; !seen {
			h.distinct[hash] = struct{}{}
			k := len(h.distinct)
			if (k == 1 || k == 10 || k == 100 || k == 1000) && len(h.samples) < 4 {
				h.samples = append(h.samples, c)
			}
		}
	}
}

type replayFile struct {
	Property string          `json:"property"`
	Sub      string          `json:"sub"`
	Error    string          `json:"error,omitempty"`
	Case     json.RawMessage `json:"case"`
}

func (h *H) violation(sub string, c any, msg string) {
	h.viol++
	dir := filepath.Join(h.Root, "replay", h.ID)
	os.MkdirAll(dir, 0o755)
	cj := model.JSON(c)
	name := fmt.Sprintf("%s-%016x.json", sub, model.Hash(cj))
	path := filepath.Join(dir, name)
	b, _ := json.MarshalIndent(replayFile{Property: h.ID, Sub: sub, Error: msg, Case: json.RawMessage(cj)}, "", " ")
	os.WriteFile(path, b, 0o644)
	line := fmt.Sprintf("VIOLATION property=%s replay=%s", h.ID, path)
	h.lines = append(h.lines, line)
	fmt.Println(line)
	fmt.Printf("  sub-check %s: %s\n", sub, msg)
}

// savedCases lists the replay files of one sub-check under replay/regress/<id> and replay/known.
func (h *H) savedCases(sub string) []string {
	var out []string
	for _, dir := range []string{filepath.Join(h.Root, "replay", "regress", h.ID), filepath.Join(h.Root, "replay", "known", h.ID)} {
		m, _ := filepath.Glob(filepath.Join(dir, sub+"-*.json"))
		sort.Strings(m)
		out = append(out, m...)
	}
	return out
}

func loadCase[C any](path string) (string, C, error) {
	var c C
	b, err := os.ReadFile(path)
	if err != nil {
		return "", c, err
	}
	var rf replayFile
	if err := json.Unmarshal(b, &rf); err != nil {
		return "", c, err
	}
	if err := json.Unmarshal(rf.Case, &c); err != nil {
		return "", c, err
	}
	return rf.Sub, c, nil
}

func (h *H) knownFor(path string) *Finding {
	for i, f := range h.known {
		if f.Fixed || f.Case == "" {
			continue
		}
		if filepath.Join(h.Root, f.Case) == path {
			return &h.known[i]
		}
	}
	return nil
}

// Sub runs one sub-check: first the saved cases (regressions of fixed defects
// and probes of listed findings), then a rapid search of n cases. gen draws a
// case (plain JSON-serialisable data); prop evaluates the property on it and is
// also what the replay tier calls, without rapid.
func Sub[C any](h *H, name string, n int, gen func(*rapid.T) C, prop func(C) Verdict) {
	SubEx(h, name, n, gen, prop, nil)
}

// SubEx is Sub with an exclusion predicate that is applied to generated cases
// only (cases in the trigger class of a listed open finding are not searched,
// and counted); saved cases - in particular the probes of those findings - are
// always evaluated by prop itself.
func SubEx[C any](h *H, name string, n int, gen func(*rapid.T) C, prop func(C) Verdict, exclude func(C) string) {
	s := h.sub(name)
	safe := func(c C) (v Verdict) {
		defer func() {
			if p := recover(); p != nil {
				v = Verdict{Err: fmt.Sprintf("harness panic: %v", p)}
			}
		}()
		return prop(c)
	}
	if h.replay != "" {
		sub, c, err := loadCase[C](h.replay)
		if err != nil || sub != name {
			return
		}
		v := safe(c)
		h.note(s, c, v)
		s.Replayed++
		if v.Err != "" {
			h.violation(name, c, v.Err)
			h.T.Errorf("replay %s: %s", h.replay, v.Err)
		} else {
			fmt.Printf("replay %s: property holds on this case\n", h.replay)
		}
		return
	}
	runSaved(h, s, name, safe)
	if n <= 0 {
		return
	}
	h.T.Run(name, func(t *testing.T) {
		var lastC C
		var lastMsg string
		failed := false
		defer func() {
			if failed {
				h.violation(name, lastC, lastMsg)
			}
		}()
		flag.Set("rapid.checks", strconv.Itoa(n))
		flag.Set("rapid.seed", strconv.FormatUint(h.subSeed(name), 10))
		rapid.Check(t, func(rt *rapid.T) {
			c := model.RoundTrip(gen(rt)) // execute exactly what a replay file would hold
			if exclude != nil {
				if why := exclude(c); why != "" {
					h.excluded++
					h.note(s, c, Verdict{Skip: "excluded-by-known-finding:" + why})
					return
				}
			}
			v := safe(c)
			if !failed { // after the first failure rapid is shrinking: do not count those evaluations
				h.note(s, c, v)
			}
			if v.Err != "" {
				failed = true
				lastC, lastMsg = c, v.Err
				rt.Fatalf("%s", v.Err)
			}
		})
	})
}

// runSaved evaluates the saved cases of a sub-check: regressions of fixed
// defects (a failure is a violation) and probes of listed open findings (a
// failure prints KNOWN-FINDING).
func runSaved[C any](h *H, s *subStats, name string, safe func(C) Verdict) {
	for _, path := range h.savedCases(name) {
		_, c, err := loadCase[C](path)
		if err != nil {
			h.T.Logf("ignoring unreadable saved case %s: %v", path, err)
			continue
		}
		v := safe(c)
		s.Replayed++
		h.note(s, c, v)
		if f := h.knownFor(path); f != nil {
			if v.Err != "" {
				fmt.Printf("KNOWN-FINDING: property=%s %s\n", h.ID, f.Text)
			} else {
				fmt.Printf("note: listed finding no longer reproduces: property=%s %s\n", h.ID, f.Text)
			}
			continue
		}
		if v.Err != "" {
			h.violation(name, c, v.Err)
			h.T.Errorf("saved case %s: %s", path, v.Err)
		}
	}
}

// Enumerate runs prop over a finite list of cases completely (exhaustive sub-check).
func Enumerate[C any](h *H, name string, cases func(yield func(C)), prop func(C) Verdict) {
	s := h.sub(name)
	s.Exhaustive = true
	if h.Shards > 1 && h.Shard != 0 && h.replay == "" {
		return // a finite enumeration is run by one shard only
	}
	if h.replay != "" {
		sub, c, err := loadCase[C](h.replay)
		if err != nil || sub != name {
			return
		}
		v := prop(c)
		h.note(s, c, v)
		if v.Err != "" {
			h.violation(name, c, v.Err)
			h.T.Errorf("replay %s: %s", h.replay, v.Err)
		} else {
			fmt.Printf("replay %s: property holds on this case\n", h.replay)
		}
		return
	}
	runSaved(h, s, name, func(c C) (v Verdict) {
		defer func() {
			if p := recover(); p != nil {
				v = Verdict{Err: fmt.Sprintf("harness panic: %v", p)}
			}
		}()
		return prop(c)
	})
	reported := 0
	cases(func(c C) {
		var v Verdict
		func() {
			defer func() {
				if p := recover(); p != nil {
					v = Verdict{Err: fmt.Sprintf("harness panic: %v", p)}
				}
			}()
			v = prop(c)
		}()
		h.note(s, c, v)
		if v.Err != "" && reported < 3 {
			reported++
			h.violation(name, c, v.Err)
			h.T.Errorf("%s: %s", name, v.Err)
		}
	})
}

func (h *H) subSeed(name string) uint64 {
	s := h.Seed*1000003 + model.Hash(name)%1000 + uint64(h.Shard)*7919
	if s == 0 {
		s = 1
	}
	return s
}

// Extra attaches an additional key to the evidence coverage object.
func (h *H) Extra(k string, v any) { h.extra[k] = v }

// Finish writes the evidence file. Call it with defer.
func (h *H) Finish() {
	if h.replay != "" {
		return
	}
	path := env("VERIF_EVIDENCE", filepath.Join(h.Root, "evidence", h.ID+".json"))
	evals, skipped := 0, 0
	exh := len(h.subs) > 0
	subs := map[string]*subStats{}
	for _, n := range h.order {
		s := h.subs[n]
		evals += s.Evaluations
		skipped += s.Skipped
		exh = exh && s.Exhaustive
		subs[n] = s
	}
	if len(h.samples) == 0 && h.fallback != nil {
		h.samples = []any{h.fallback}
	}
	cov := map[string]any{
		"evaluations":            evals,
		"distinct_nontrivial":    len(h.distinct),
		"rule":                   h.rule,
		"samples":                h.samples,
		"subchecks":              subs,
		"skipped_outside_domain": skipped,
	}
	if exh {
		cov["exhaustive"] = true
	}
	cov["excluded_by_known_finding"] = h.excluded
	for k, v := range h.extra {
		cov[k] = v
	}
	if h.Shards > 1 {
		hs := make([]string, 0, len(h.distinct))
		for x := range h.distinct {
			hs = append(hs, strconv.FormatUint(x, 16))
		}
		sort.Strings(hs)
		cov["nontrivial_hashes"] = hs
	}
	ev := map[string]any{
		"property_id": h.ID,
		"tier":        h.Tier,
		"seed":        h.Seed,
		"level":       "exploration",
		"coverage":    cov,
		"assumptions": h.assume,
		"wall_s":      time.Since(h.start).Seconds(),
		"violations":  h.viol,
	}
	b, _ := json.MarshalIndent(ev, "", " ")
	os.MkdirAll(filepath.Dir(path), 0o755)
	if err := os.WriteFile(path, b, 0o644); err != nil {
		h.T.Logf("cannot write evidence: %v", err)
	}
}
