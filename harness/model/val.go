// Package model holds the plain-data case language of the harness, the builder
// that turns it into real zog schemas, and the executable specification.
package model

import (
	"encoding/hex"
	"encoding/json"
	"fmt"
	"math"
	mbigf "math/big"
	"reflect"
	"strconv"
	"time"
	"unicode/utf8"
)

// Val is a JSON-serialisable description of a Go value. It is the only form in
// which inputs, defaults, catch values and test parameters are stored in a case,
// so every case can be written to a replay file and rebuilt without rapid.
//
//	T        payload
//	nil      -                              untyped nil
//	string   S
//	int,int8,int16,int32,int64,uint,uint8,uint16,uint32,uint64   S decimal
//	float32,float64   S (strconv 'g' or NaN/+Inf/-Inf)
//	bool     S "true"/"false"
//	time     S RFC3339Nano
//	list     L          []any
//	strlist,intlist,f64list,boollist   L     []string / []int / []float64 / []bool
//	map      M (ordered) map[string]any, inserted in the order given
//	mapss,mapsi,mapsf,mapsb   M           map[string]string / int / float64 / bool
//	mapsi64, nmapss,nmapsi,nmapsf,nmapsb, nmap   M    map[string]int64; user-defined map types over string/int/float64/bool/any
//	ptr      L[0]        pointer to the materialised L[0]
//	wild     S           name in the wild-value registry (C06)
type Val struct {
	T string `json:"t"`
	S string `json:"s,omitempty"`
	L []Val  `json:"l,omitempty"`
	M []KV   `json:"m,omitempty"`
}

type KV struct {
	K string `json:"k"`
	V Val    `json:"v"`
}

func Nil() Val             { return Val{T: "nil"} }
func Str(s string) Val     { return Val{T: "string", S: s} }
func Int(i int) Val        { return Val{T: "int", S: strconv.Itoa(i)} }
func Int32(i int32) Val    { return Val{T: "int32", S: strconv.FormatInt(int64(i), 10)} }
func Int64(i int64) Val    { return Val{T: "int64", S: strconv.FormatInt(i, 10)} }
func F64(f float64) Val    { return Val{T: "float64", S: fmtFloat(f, 64)} }
func F32(f float32) Val    { return Val{T: "float32", S: fmtFloat(float64(f), 32)} }
func Bool(b bool) Val      { return Val{T: "bool", S: strconv.FormatBool(b)} }
func Time(t time.Time) Val { return Val{T: "time", S: t.Format(time.RFC3339Nano)} }
func List(l ...Val) Val    { return Val{T: "list", L: l} }
func Map(kv ...KV) Val     { return Val{T: "map", M: kv} }

func fmtFloat(f float64, bits int) string {
	switch {
	case math.IsNaN(f):
		return "NaN"
	case math.IsInf(f, 1):
		return "+Inf"
	case math.IsInf(f, -1):
		return "-Inf"
	}
	return strconv.FormatFloat(f, 'g', -1, bits)
}

func parseFloat(s string, bits int) float64 {
	f, err := strconv.ParseFloat(s, bits)
	if err != nil && f == 0 {
		panic("model: bad float payload " + s)
	}
	return f
}

func (v Val) IsNil() bool { return v.T == "nil" || v.T == "" }

// Get returns the entry of a map Val.
func (v Val) Get(k string) (Val, bool) {
	for i := len(v.M) - 1; i >= 0; i-- {
		if v.M[i].K == k {
			return v.M[i].V, true
		}
	}
	return Val{}, false
}

// WildRegistry maps names to constructors of values that cannot be described
// by the plain grammar above (named types, structs, funcs, channels ...).
var WildRegistry = map[string]func() any{}

// Go materialises the value.
func (v Val) Go() any {
	switch v.T {
	case "nil", "":
		return nil
	case "string":
		return v.S
	case "int":
		return int(mustInt(v.S, 64))
	case "int8":
		return int8(mustInt(v.S, 8))
	case "int16":
		return int16(mustInt(v.S, 16))
	case "int32":
		return int32(mustInt(v.S, 32))
	case "int64":
		return mustInt(v.S, 64)
	case "uint":
		return uint(mustUint(v.S, 64))
	case "uint8":
		return uint8(mustUint(v.S, 8))
	case "uint16":
		return uint16(mustUint(v.S, 16))
	case "uint32":
		return uint32(mustUint(v.S, 32))
	case "uint64":
		return mustUint(v.S, 64)
	case "float32":
		return float32(parseFloat(v.S, 32))
	case "float64":
		return parseFloat(v.S, 64)
	case "bool":
		return v.S == "true"
	case "time":
		return mustTime(v.S)
	case "list":
		out := make([]any, len(v.L))
		for i, e := range v.L {
			out[i] = e.Go()
		}
		return out
	case "strlist":
		out := make([]string, len(v.L), len(v.L)+emptyCap(len(v.L)))
		for i, e := range v.L {
			out[i] = e.S
		}
		return out
	case "intlist":
		out := make([]int, len(v.L), len(v.L)+emptyCap(len(v.L)))
		for i, e := range v.L {
			out[i] = int(mustInt(e.S, 64))
		}
		return out
	case "f64list":
		out := make([]float64, len(v.L), len(v.L)+emptyCap(len(v.L)))
		for i, e := range v.L {
			out[i] = parseFloat(e.S, 64)
		}
		return out
	case "boollist":
		out := make([]bool, len(v.L), len(v.L)+emptyCap(len(v.L)))
		for i, e := range v.L {
			out[i] = e.S == "true"
		}
		return out
	case "map":
		out := make(map[string]any, len(v.M))
		for _, kv := range v.M {
			out[kv.K] = kv.V.Go()
		}
		return out
	case "mapss":
		out := make(map[string]string, len(v.M))
		for _, kv := range v.M {
			out[kv.K] = kv.V.S
		}
		return out
	case "mapsi":
		out := make(map[string]int, len(v.M))
		for _, kv := range v.M {
			out[kv.K] = int(mustInt(kv.V.S, 64))
		}
		return out
	case "mapsf":
		out := make(map[string]float64, len(v.M))
		for _, kv := range v.M {
			out[kv.K] = parseFloat(kv.V.S, 64)
		}
		return out
	case "mapsb":
		out := make(map[string]bool, len(v.M))
		for _, kv := range v.M {
			out[kv.K] = kv.V.S == "true"
		}
		return out
	case "jsonnum": // json.Number, as encoding/json decodes numbers with UseNumber
		return json.Number(v.S)
	case "cents": // a user-defined integer type whose String() prints another number than the value it holds
		return Cents(mustInt(v.S, 64))
	case "level": // ... and one whose String() prints an integer ten times the value
		return Level(mustInt(v.S, 64))
	case "bigfloat": // *big.Float: its String() keeps 10 significant digits
		f, _, err := new(mbigf.Float).SetPrec(200).Parse(v.S, 10)
		if err != nil {
			panic("bad bigfloat payload")
		}
		return f
	case "mapsi64": // not one of the map types with a provider of their own: the generic path for string-keyed maps
		out := make(map[string]int64, len(v.M))
		for _, kv := range v.M {
			out[kv.K] = mustInt(kv.V.S, 64)
		}
		return out
	case "nmapss":
		out := make(NamedStrMap, len(v.M))
		for _, kv := range v.M {
			out[kv.K] = kv.V.S
		}
		return out
	case "nmapsi":
		out := make(NamedIntMap, len(v.M))
		for _, kv := range v.M {
			out[kv.K] = int(mustInt(kv.V.S, 64))
		}
		return out
	case "nmapsf":
		out := make(NamedFloatMap, len(v.M))
		for _, kv := range v.M {
			out[kv.K] = parseFloat(kv.V.S, 64)
		}
		return out
	case "nmapsb":
		out := make(NamedBoolMap, len(v.M))
		for _, kv := range v.M {
			out[kv.K] = kv.V.S == "true"
		}
		return out
	case "nmap":
		out := make(NamedMap, len(v.M))
		for _, kv := range v.M {
			out[kv.K] = kv.V.Go()
		}
		return out
	case "struct":
		// a Go struct value with one exported field per entry (K must be an exported identifier);
		// fields are typed like their values (a nil value gives an `any` field)
		fields := make([]reflect.StructField, len(v.M))
		vals := make([]any, len(v.M))
		for i, kv := range v.M {
			vals[i] = kv.V.Go()
			t := reflect.TypeOf(vals[i])
			if t == nil {
				t = reflect.TypeOf((*any)(nil)).Elem()
			}
			fields[i] = reflect.StructField{Name: kv.K, Type: t}
		}
		sv := reflect.New(reflect.StructOf(fields)).Elem()
		for i, x := range vals {
			if x != nil {
				sv.Field(i).Set(reflect.ValueOf(x))
			}
		}
		return sv.Interface()
	case "ptr":
		inner := v.L[0].Go()
		if inner == nil {
			var p *any
			return p
		}
		rv := reflect.New(reflect.TypeOf(inner))
		rv.Elem().Set(reflect.ValueOf(inner))
		return rv.Interface()
	case "wild":
		f, ok := WildRegistry[v.S]
		if !ok {
			panic("model: unknown wild value " + v.S)
		}
		return f()
	}
	panic("model: unknown Val type " + v.T)
}

func mustInt(s string, bits int) int64 {
	i, err := strconv.ParseInt(s, 10, bits)
	if err != nil {
		panic(fmt.Sprintf("model: bad int payload %q: %v", s, err))
	}
	return i
}

func mustUint(s string, bits int) uint64 {
	i, err := strconv.ParseUint(s, 10, bits)
	if err != nil {
		panic(fmt.Sprintf("model: bad uint payload %q: %v", s, err))
	}
	return i
}

func mustTime(s string) time.Time {
	t, err := time.Parse(time.RFC3339Nano, s)
	if err != nil {
		panic(fmt.Sprintf("model: bad time payload %q: %v", s, err))
	}
	return t
}

// FromGo describes a Go value of the plain grammar as a Val (inverse of Go for
// the types the harness itself produces).
func FromGo(x any) Val {
	switch v := x.(type) {
	case nil:
		return Nil()
	case string:
		return Str(v)
	case int:
		return Int(v)
	case int32:
		return Int32(v)
	case int64:
		return Int64(v)
	case float64:
		return F64(v)
	case float32:
		return F32(v)
	case bool:
		return Bool(v)
	case time.Time:
		return Time(v)
	case []any:
		out := Val{T: "list", L: make([]Val, len(v))}
		for i, e := range v {
			out.L[i] = FromGo(e)
		}
		return out
	}
	rv := reflect.ValueOf(x)
	switch rv.Kind() {
	case reflect.Slice:
		out := Val{T: "list", L: make([]Val, rv.Len())}
		for i := 0; i < rv.Len(); i++ {
			out.L[i] = FromGo(rv.Index(i).Interface())
		}
		return out
	case reflect.Pointer:
		if rv.IsNil() {
			return Nil()
		}
		return FromGo(rv.Elem().Interface())
	}
	return Str(fmt.Sprintf("%v", x))
}

// JSON renders any case part canonically (struct field order is fixed, maps are
// sorted by encoding/json), used for hashing and for replay files.
func JSON(x any) string {
	b, err := json.Marshal(x)
	if err != nil {
		panic(err)
	}
	return string(b)
}

// Strings that are not valid UTF-8 cannot travel through JSON; they are saved
// hex-encoded in a side field so that a replayed case is byte-identical.

type valWire struct {
	T string `json:"t"`
	S string `json:"s,omitempty"`
	X string `json:"x,omitempty"`
	L []Val  `json:"l,omitempty"`
	M []KV   `json:"m,omitempty"`
}

func (v Val) MarshalJSON() ([]byte, error) {
	w := valWire{T: v.T, S: v.S, L: v.L, M: v.M}
	if !utf8.ValidString(v.S) {
		w.S, w.X = "", hex.EncodeToString([]byte(v.S))
	}
	return json.Marshal(w)
}

func (v *Val) UnmarshalJSON(b []byte) error {
	var w valWire
	if err := json.Unmarshal(b, &w); err != nil {
		return err
	}
	*v = Val{T: w.T, S: w.S, L: w.L, M: w.M}
	if w.X != "" {
		raw, err := hex.DecodeString(w.X)
		if err != nil {
			return err
		}
		v.S = string(raw)
	}
	return nil
}

// RoundTrip passes a case through its JSON form, so that what is executed is
// exactly what a replay file would contain.
func RoundTrip[C any](c C) C {
	var out C
	if err := json.Unmarshal([]byte(JSON(c)), &out); err != nil {
		panic(fmt.Sprintf("model: case does not survive JSON: %v", err))
	}
	return out
}
