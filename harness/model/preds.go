package model

import (
	"fmt"
	"math"
	"reflect"
	"sort"
	"strings"
	"time"
)

// Reference predicates, written from the documentation (reference.md, the
// property statements) and not from zog's code. They operate on destination
// values by reflection.

// Canon turns a destination value into a JSON-able canonical tree. Times are
// rendered as instants (zone-free), floats via their bit pattern class so that
// NaN equals NaN.
// canonCap: when set, Canon views every slice up to its CAPACITY (the memory behind it that a write through an
// alias could reach), marking where the length ends. Used through CanonCapJSON only.
var canonCap bool

// CanonCapJSON is CanonJSON over the whole backing arrays of the slices in v.
// TypeTree renders the dynamic types of a value and of everything reachable from it through maps, slices, pointers
// and interfaces (contents are CanonJSON's business).
func TypeTree(v reflect.Value) string {
	if !v.IsValid() {
		return "nil"
	}
	switch v.Kind() {
	case reflect.Interface, reflect.Pointer:
		if v.IsNil() {
			return v.Type().String() + "(nil)"
		}
		if v.Kind() == reflect.Interface {
			return TypeTree(v.Elem())
		}
		return "*" + TypeTree(v.Elem())
	case reflect.Map:
		if v.IsNil() {
			return v.Type().String() + "(nil)"
		}
		keys := make([]string, 0, v.Len())
		vals := map[string]string{}
		for _, k := range v.MapKeys() {
			ks := fmt.Sprintf("%v", k.Interface())
			keys = append(keys, ks)
			vals[ks] = TypeTree(v.MapIndex(k))
		}
		sort.Strings(keys)
		var sb strings.Builder
		sb.WriteString(v.Type().String() + "{")
		for _, k := range keys {
			sb.WriteString(k + ":" + vals[k] + ",")
		}
		sb.WriteString("}")
		return sb.String()
	case reflect.Slice, reflect.Array:
		if v.Kind() == reflect.Slice && v.IsNil() {
			return v.Type().String() + "(nil)"
		}
		var sb strings.Builder
		sb.WriteString(v.Type().String() + "[")
		for i := 0; i < v.Len(); i++ {
			sb.WriteString(TypeTree(v.Index(i)) + ",")
		}
		sb.WriteString("]")
		return sb.String()
	}
	return v.Type().String()
}

func CanonCapJSON(v reflect.Value) string {
	canonCap = true
	defer func() { canonCap = false }()
	return CanonJSON(v)
}

func Canon(v reflect.Value) any {
	if !v.IsValid() {
		return nil
	}
	if canonCap && v.Kind() == reflect.Slice && !v.IsNil() && v.Cap() > v.Len() {
		full := v.Slice(0, v.Cap())
		out := make([]any, 0, v.Cap()+1)
		for i := 0; i < full.Len(); i++ {
			if i == v.Len() {
				out = append(out, "|len")
			}
			out = append(out, Canon(full.Index(i)))
		}
		return out
	}
	switch v.Kind() {
	case reflect.String:
		return "s:" + v.String()
	case reflect.Int, reflect.Int8, reflect.Int16, reflect.Int32, reflect.Int64:
		return fmt.Sprintf("i:%d", v.Int())
	case reflect.Uint, reflect.Uint8, reflect.Uint16, reflect.Uint32, reflect.Uint64:
		return fmt.Sprintf("u:%d", v.Uint())
	case reflect.Float32, reflect.Float64:
		f := v.Float()
		if f == 0 && math.Signbit(f) {
			return "f:-0"
		}
		return "f:" + fmtFloat(f, 64)
	case reflect.Bool:
		return fmt.Sprintf("b:%v", v.Bool())
	case reflect.Pointer:
		if v.IsNil() {
			return nil
		}
		return map[string]any{"ptr": Canon(v.Elem())}
	case reflect.Interface:
		if v.IsNil() {
			return nil
		}
		return Canon(v.Elem())
	case reflect.Slice:
		if v.IsNil() {
			return "nilslice"
		}
		out := make([]any, v.Len())
		for i := range out {
			out[i] = Canon(v.Index(i))
		}
		return out
	case reflect.Struct:
		if t, ok := v.Interface().(time.Time); ok {
			return fmt.Sprintf("t:%d.%09d", t.Unix(), t.Nanosecond())
		}
		out := map[string]any{}
		for i := 0; i < v.NumField(); i++ {
			out[v.Type().Field(i).Name] = Canon(v.Field(i))
		}
		return out
	case reflect.Map:
		out := map[string]any{}
		for _, k := range v.MapKeys() {
			out[fmt.Sprint(k.Interface())] = Canon(v.MapIndex(k))
		}
		return out
	}
	return fmt.Sprintf("?%v", v.Kind())
}

// CanonLoose is Canon with nil and empty slices identified (zog allocates empty
// slices where a model would leave nil; no property distinguishes them).
func CanonJSON(v reflect.Value) string {
	return strings.ReplaceAll(JSON(Canon(v)), `"nilslice"`, `[]`)
}

// IsEmailWHATWG recognises the WHATWG "valid e-mail address" grammar:
//
//	1*( atext / "." ) "@" label *( "." label )
//	label = let-dig [ [ ldh-str ] let-dig ], at most 63 characters
func IsEmailWHATWG(s string) bool {
	at := strings.IndexByte(s, '@')
	if at <= 0 {
		return false
	}
	local, domain := s[:at], s[at+1:]
	for i := 0; i < len(local); i++ {
		c := local[i]
		if isAlnum(c) || strings.IndexByte(".!#$%&'*+/=?^_`{|}~-", c) >= 0 {
			continue
		}
		return false
	}
	if domain == "" {
		return false
	}
	for _, label := range strings.Split(domain, ".") {
		if len(label) == 0 || len(label) > 63 {
			return false
		}
		if !isAlnum(label[0]) || !isAlnum(label[len(label)-1]) {
			return false
		}
		for i := 0; i < len(label); i++ {
			if !isAlnum(label[i]) && label[i] != '-' {
				return false
			}
		}
	}
	return true
}

func isAlnum(c byte) bool {
	return (c >= 'a' && c <= 'z') || (c >= 'A' && c <= 'Z') || (c >= '0' && c <= '9')
}

func isHex(c byte) bool {
	return (c >= '0' && c <= '9') || (c >= 'a' && c <= 'f') || (c >= 'A' && c <= 'F')
}

// IsUUIDShape recognises 8-4-4-4-12 hexadecimal groups (version nibble free).
func IsUUIDShape(s string) bool {
	if len(s) != 36 {
		return false
	}
	for i := 0; i < 36; i++ {
		switch i {
		case 8, 13, 18, 23:
			if s[i] != '-' {
				return false
			}
		default:
			if !isHex(s[i]) {
				return false
			}
		}
	}
	return true
}

// URLVerdict classifies a string as certainly a URL with scheme and host,
// certainly not one, or uncertain (generators never emit uncertain subjects
// for a URL test).
func URLVerdict(s string) (pass, certain bool) {
	if !strings.Contains(s, ":") {
		return false, true // no scheme possible
	}
	// a URL contains no control characters (RFC 3986) and starts with its scheme: a value that is a URL only after
	// trimming is not a URL
	for i := 0; i < len(s) && s[i] != '#'; i++ {
		if s[i] < 0x20 || s[i] == 0x7f {
			return false, true
		}
	}
	if s[0] == ' ' {
		return false, true
	}
	if k := strings.IndexByte(s, '#'); k >= 0 {
		for i := k; i < len(s); i++ {
			if s[i] < 0x20 || s[i] == 0x7f {
				return false, false // (what a fragment may hold is left to the implementation)
			}
		}
	}
	// scheme "://" host [":" port] ["/" path] ["?" query] ["#" fragment]   (RFC 3986: the fragment may follow any of them)
	i := strings.Index(s, "://")
	if i <= 0 {
		return false, false
	}
	scheme, rest := s[:i], s[i+3:]
	if k := strings.IndexByte(rest, '#'); k >= 0 {
		frag := rest[k+1:]
		rest = rest[:k]
		for j := 0; j < len(frag); j++ {
			if c := frag[j]; !isAlnum(c) && strings.IndexByte("/?=&_.~-", c) < 0 {
				return false, false
			}
		}
	}
	if !(scheme[0] >= 'a' && scheme[0] <= 'z') {
		return false, false
	}
	for j := 1; j < len(scheme); j++ {
		c := scheme[j]
		if !((c >= 'a' && c <= 'z') || (c >= '0' && c <= '9')) {
			return false, false
		}
	}
	host := rest
	tail := ""
	if k := strings.IndexAny(rest, "/?"); k >= 0 {
		host, tail = rest[:k], rest[k:]
	}
	if p := strings.IndexByte(host, ':'); p >= 0 {
		port := host[p+1:]
		host = host[:p]
		if len(port) == 0 || len(port) > 5 {
			return false, false
		}
		for j := 0; j < len(port); j++ {
			if port[j] < '0' || port[j] > '9' {
				return false, false
			}
		}
	}
	if host == "" || !isAlnum(host[0]) || !isAlnum(host[len(host)-1]) {
		return false, false
	}
	for j := 0; j < len(host); j++ {
		if !isAlnum(host[j]) && host[j] != '.' && host[j] != '-' {
			return false, false
		}
	}
	for j := 0; j < len(tail); j++ {
		c := tail[j]
		if !isAlnum(c) && strings.IndexByte("/?=&_.~-", c) < 0 {
			return false, false
		}
	}
	return true, true
}

// Uncertain is panicked by a reference predicate asked about a subject whose
// classification the documentation does not settle; Spec turns it into Unknown.
type Uncertain string

// MatchMenu: regular expressions with hand-written recognisers.
var MatchMenu = map[string]func(string) bool{
	`^[a-z]+$`: func(s string) bool {
		if s == "" {
			return false
		}
		for i := 0; i < len(s); i++ {
			if s[i] < 'a' || s[i] > 'z' {
				return false
			}
		}
		return true
	},
	`^[0-9]{3}$`: func(s string) bool {
		if len(s) != 3 {
			return false
		}
		for i := 0; i < 3; i++ {
			if s[i] < '0' || s[i] > '9' {
				return false
			}
		}
		return true
	},
	`ab`: func(s string) bool { return strings.Contains(s, "ab") },
	`^A`: func(s string) bool { return strings.HasPrefix(s, "A") },
	`z$`: func(s string) bool { return strings.HasSuffix(s, "z") },
}

var MatchMenuKeys = SortedKeys(MatchMenu)

func hasASCII(s string, pred func(r rune) bool) bool {
	for _, r := range s {
		if pred(r) {
			return true
		}
	}
	return false
}

func IsASCIIPunct(r rune) bool {
	if r < 0x21 || r > 0x7e {
		return false
	}
	c := byte(r)
	return !isAlnum(c)
}

// cmpTime compares instants.
func cmpTime(a, b time.Time) int {
	if a.Unix() != b.Unix() {
		if a.Unix() < b.Unix() {
			return -1
		}
		return 1
	}
	if a.Nanosecond() != b.Nanosecond() {
		if a.Nanosecond() < b.Nanosecond() {
			return -1
		}
		return 1
	}
	return 0
}

// valEqualsDest reports deep equality between a destination value and the Go
// value of a parameter Val converted to the destination's type.
func valEqualsDest(v reflect.Value, arg Val) bool {
	if v.Kind() == reflect.Pointer { // deep equality looks through pointers
		if v.IsNil() {
			return false
		}
		return valEqualsDest(v.Elem(), arg)
	}
	if v.Kind() == reflect.Slice && len(arg.L) > 0 || arg.T == "strlist" || arg.T == "intlist" || arg.T == "f64list" || arg.T == "boollist" {
		if v.Kind() != reflect.Slice {
			return false
		}
		return reflect.DeepEqual(v.Interface(), TypedSlice(v.Type(), arg)) // "membership by deep equality"
	}
	a := reflect.ValueOf(arg.Go())
	if !a.IsValid() {
		return false
	}
	if t, ok := v.Interface().(time.Time); ok {
		// OneOf/Contains use deep equality on time.Time, which compares the
		// representation; generators never put times in OneOf/Contains lists.
		u, ok2 := a.Interface().(time.Time)
		return ok2 && t == u
	}
	if !a.Type().ConvertibleTo(v.Type()) {
		return false
	}
	a = a.Convert(v.Type())
	switch v.Kind() {
	case reflect.Float32, reflect.Float64:
		return v.Float() == a.Float() // NaN never equal
	}
	return reflect.DeepEqual(v.Interface(), a.Interface())
}

// EvalTest evaluates the plain (un-negated) documented predicate of a test on a
// destination value of the node's Go type.
func EvalTest(kind string, ts TestSpec, v reflect.Value) bool {
	if ts.Name == "func" {
		return EvalFunc(ts.Str, v)
	}
	switch {
	case kind == KString:
		s := v.String()
		switch ts.Name {
		case "min":
			return len(s) >= ts.N
		case "max":
			return len(s) <= ts.N
		case "len":
			return len(s) == ts.N
		case "email":
			return IsEmailWHATWG(s)
		case "uuid":
			return IsUUIDShape(s)
		case "url":
			p, certain := URLVerdict(s)
			if !certain {
				panic(Uncertain("URL subject outside the certain classes: " + s))
			}
			return p
		case "match":
			return MatchMenu[ts.Str](s)
		case "prefix":
			return len(s) >= len(ts.Str) && s[:len(ts.Str)] == ts.Str
		case "suffix":
			return len(s) >= len(ts.Str) && s[len(s)-len(ts.Str):] == ts.Str
		case "contains":
			return strings.Contains(s, ts.Str)
		case "upper":
			return hasASCII(s, func(r rune) bool { return r >= 'A' && r <= 'Z' })
		case "digit":
			return hasASCII(s, func(r rune) bool { return r >= '0' && r <= '9' })
		case "special":
			return hasASCII(s, IsASCIIPunct)
		case "oneof":
			for _, a := range ts.Args {
				if a.S == s {
					return true
				}
			}
			return false
		}
	case IsNumber(kind):
		if ts.Name == "oneof" {
			for _, a := range ts.Args {
				if valEqualsDest(v, a) {
					return true
				}
			}
			return false
		}
		c, ok := cmpNum(v, *ts.Arg)
		if !ok { // NaN involved: every ordered comparison and == is false
			return false
		}
		switch ts.Name {
		case "eq":
			return c == 0
		case "lt":
			return c < 0
		case "lte":
			return c <= 0
		case "gt":
			return c > 0
		case "gte":
			return c >= 0
		}
	case kind == KBool:
		b := v.Bool()
		switch ts.Name {
		case "true":
			return b
		case "false":
			return !b
		case "eq":
			return b == (ts.Arg.S == "true")
		}
	case kind == KTime:
		t := v.Interface().(time.Time)
		c := cmpTime(t, mustTime(ts.Arg.S))
		switch ts.Name {
		case "after":
			return c > 0
		case "before":
			return c < 0
		case "eq":
			return c == 0
		}
	case kind == KSlice:
		switch ts.Name {
		case "min":
			return v.Len() >= ts.N
		case "max":
			return v.Len() <= ts.N
		case "len":
			return v.Len() == ts.N
		case "contains":
			for i := 0; i < v.Len(); i++ {
				if valEqualsDest(v.Index(i), *ts.Arg) {
					return true
				}
			}
			return false
		}
	}
	panic(fmt.Sprintf("model: no reference predicate for %s.%s", kind, ts.Name))
}

// cmpNum compares the destination number with a parameter of the same kind.
func cmpNum(v reflect.Value, arg Val) (int, bool) {
	a := reflect.ValueOf(arg.Go()).Convert(v.Type())
	switch v.Kind() {
	case reflect.Float32, reflect.Float64:
		x, y := v.Float(), a.Float()
		if math.IsNaN(x) || math.IsNaN(y) {
			return 0, false
		}
		switch {
		case x < y:
			return -1, true
		case x > y:
			return 1, true
		}
		return 0, true
	}
	x, y := v.Int(), a.Int()
	switch {
	case x < y:
		return -1, true
	case x > y:
		return 1, true
	}
	return 0, true
}

// EvalFunc evaluates a harness predicate (used by TestFunc recorders and custom
// schemas) on a destination value.
func EvalFunc(id string, v reflect.Value) bool {
	switch id {
	case "pass", "normalize":
		return true
	case "fail":
		return false
	case "hashEven":
		return Hash(CanonJSON(v))%2 == 0
	case "lenEven":
		return v.Len()%2 == 0
	case "nonNeg":
		switch v.Kind() {
		case reflect.Float32, reflect.Float64:
			return v.Float() >= 0
		}
		return v.Int() >= 0
	}
	panic("model: unknown predicate " + id)
}

// ApplyCustomNorm is what a "normalize" custom function does to the value it is given a pointer to (it then accepts it).
func ApplyCustomNorm(v reflect.Value) {
	if !v.CanSet() {
		return
	}
	switch v.Kind() {
	case reflect.String:
		v.SetString(strings.ToLower(strings.TrimSpace(v.String())) + "~")
	case reflect.Int:
		if x := v.Int(); x < 0 && x > -(1<<40) {
			v.SetInt(-x)
		} else if x < 1<<40 {
			v.SetInt(x + 2)
		}
	}
}

// DefaultCode is the issue code the documentation assigns to a built-in test.
func DefaultCode(kind string, ts TestSpec) string {
	var c string
	switch ts.Name {
	case "min", "max", "len", "email", "uuid", "match", "url", "eq", "lt", "lte", "gt", "gte", "after", "before":
		c = ts.Name
	case "prefix", "suffix":
		c = ts.Name
	case "contains":
		c = "contained"
	case "upper":
		c = "contains_upper"
	case "digit":
		c = "contains_digit"
	case "special":
		c = "contains_special"
	case "oneof":
		c = "one_of_options"
	case "true", "false":
		c = "eq" // Bool.True()/False() report eq in the pinned tree; C11 accepts either documented code
	case "func":
		c = ""
	}
	if ts.Not {
		c = "not_" + c
	}
	return c
}

// ExpectedCode is the code an issue of this test must carry.
func ExpectedCode(kind string, ts TestSpec) string {
	if ts.Opts.Code != "" {
		return ts.Opts.Code
	}
	return DefaultCode(kind, ts)
}

// DefaultParams are the issue params the reference documentation (zconst) assigns to a built-in test.
func DefaultParams(kind string, elemKind string, ts TestSpec) map[string]any {
	conv := func(v Val, k string) any {
		return reflect.ValueOf(v.Go()).Convert(GoType(k)).Interface()
	}
	switch ts.Name {
	case "min", "max", "len":
		return map[string]any{ts.Name: ts.N}
	case "prefix", "suffix":
		return map[string]any{ts.Name: ts.Str}
	case "match":
		return map[string]any{"match": ts.Str}
	case "contains":
		if kind == KSlice {
			if elemKind == KSlice {
				return map[string]any{"contained": ts.Arg.Go()}
			}
			return map[string]any{"contained": conv(*ts.Arg, elemKind)}
		}
		return map[string]any{"contained": ts.Str}
	case "oneof":
		l := reflect.MakeSlice(reflect.SliceOf(GoType(kind)), 0, len(ts.Args))
		for _, a := range ts.Args {
			l = reflect.Append(l, reflect.ValueOf(conv(a, kind)))
		}
		return map[string]any{"one_of_options": l.Interface()}
	case "eq", "lt", "lte", "gt", "gte", "after", "before":
		return map[string]any{ts.Name: conv(*ts.Arg, kind)}
	case "true":
		return map[string]any{"eq": true}
	case "false":
		return map[string]any{"eq": false}
	}
	return nil
}

// GoType is the destination Go type of a primitive kind.
func GoType(kind string) reflect.Type {
	switch kind {
	case KString:
		return reflect.TypeOf("")
	case KInt:
		return reflect.TypeOf(int(0))
	case KInt32:
		return reflect.TypeOf(int32(0))
	case KInt64:
		return reflect.TypeOf(int64(0))
	case KFloat32:
		return reflect.TypeOf(float32(0))
	case KFloat64:
		return reflect.TypeOf(float64(0))
	case KBool:
		return reflect.TypeOf(false)
	case KTime:
		return reflect.TypeOf(time.Time{})
	}
	panic("GoType " + kind)
}

// SortedPairs renders a multimap (url.Values, http.Header) deterministically.
func SortedPairs(m map[string][]string) string {
	ks := SortedKeys(m)
	var sb strings.Builder
	for _, k := range ks {
		fmt.Fprintf(&sb, "%q:%q ", k, m[k])
	}
	return sb.String()
}
