package model

import (
	"encoding/hex"
	"encoding/json"
	"hash/fnv"
	"sort"
	"unicode/utf8"
)

// Kinds of schema node.
const (
	KString  = "string"
	KInt     = "int"
	KInt32   = "int32"
	KInt64   = "int64"
	KFloat32 = "float32"
	KFloat64 = "float64"
	KBool    = "bool"
	KTime    = "time"
	KSlice   = "slice"
	KStruct  = "struct"
	KPtr     = "ptr"
	KCustom  = "custom" // Custom[T]; T named by CustomT (string|int)
	KPre     = "preprocess"
)

func IsPrimitive(k string) bool {
	switch k {
	case KString, KInt, KInt32, KInt64, KFloat32, KFloat64, KBool, KTime:
		return true
	}
	return false
}

func IsNumber(k string) bool {
	switch k {
	case KInt, KInt32, KInt64, KFloat32, KFloat64:
		return true
	}
	return false
}

// Opts are the TestOptions passed to one test (or to Required / NotNil).
type Opts struct {
	Msg     string `json:"msg,omitempty"`     // z.Message
	MsgFunc string `json:"msgFunc,omitempty"` // z.MessageFunc: stamps this marker
	// MsgLast: both Msg and MsgFunc given: Message is passed AFTER MessageFunc (the later of the two options decides)
	MsgLast   bool              `json:"msgLast,omitempty"`
	Code      string            `json:"code,omitempty"` // z.IssueCode
	Path      string            `json:"path,omitempty"` // z.IssuePath
	HasParams bool              `json:"hasParams,omitempty"`
	Params    map[string]string `json:"params,omitempty"` // z.Params
	// Order in which the options are passed (indices into the canonical list
	// msg,msgFunc,code,path,params); nil = canonical order.
}

// TestSpec describes one test attached to a node.
//
//	string: min max len (N) | email url uuid upper digit special | match prefix suffix contains (Str) | oneof (Args)
//	number: eq lt lte gt gte (Arg) | oneof (Args)
//	bool:   true false | eq (Arg)
//	time:   after before eq (Arg)
//	slice:  min max len (N) | contains (Arg)
//	any:    func (Str = predicate id; always carries Opts.Code)
type TestSpec struct {
	Name string `json:"name"`
	Not  bool   `json:"not,omitempty"`
	N    int    `json:"n,omitempty"`
	Str  string `json:"str,omitempty"`
	Arg  *Val   `json:"arg,omitempty"`
	Args []Val  `json:"args,omitempty"`
	Opts Opts   `json:"opts,omitempty"`
	// AsValue ("func" tests): built as a reusable z.TestFunc value without options; the schema gets a COPY of that
	// value specialised by field assignment (IssueCode, IssuePath, Params, IssueFmtFunc) through schema.Test(t)
	AsValue bool `json:"asValue,omitempty"`
	// Complex ("func" tests): written as a z.Test{Func: ...} that reports through ctx.AddIssue (documentation: "Complex
	// Custom Tests") instead of returning a bool. "ctx": ctx.Issue() (prefilled with the node's path, type and value);
	// "hand": a hand-built issue without Path; "handpath": a hand-built issue with an explicit Path (Opts.Path)
	Complex string `json:"complex,omitempty"`
}

// PostSpec describes one PostTransform recorder.
//
//	record   only records
//	mutate   deterministic mutation of its own destination (see ApplyPostMutation)
//	error    returns a plain error
//	issue    returns a *ZogIssue
type PostSpec struct {
	Behaviour string `json:"b"`
}

type Field struct {
	Key  string            `json:"key"`            // schema key
	Tags map[string]string `json:"tags,omitempty"` // struct tags json/form/query/env/zog
	Node *Node             `json:"node"`
	// Embed: the destination declares this field as an embedded (anonymous) struct field; struct nodes only
	Embed bool `json:"embed,omitempty"`
}

// GoName is the destination field name zog derives from the schema key.
func (f Field) GoName() string {
	k := f.Key
	if k[0] >= 'a' && k[0] <= 'z' {
		return string(k[0]-32) + k[1:]
	}
	return k
}

type Node struct {
	Kind     string     `json:"kind"`
	Req      bool       `json:"req,omitempty"`     // Required() / NotNil()
	ReqOpts  *Opts      `json:"reqOpts,omitempty"` // options given to Required()/NotNil()
	Def      *Val       `json:"def,omitempty"`     // Default(v)
	Catch    *Val       `json:"catch,omitempty"`   // Catch(v)
	Tests    []TestSpec `json:"tests,omitempty"`
	Posts    []PostSpec `json:"posts,omitempty"`
	Elem     *Node      `json:"elem,omitempty"`   // slice / ptr / preprocess
	Fields   []Field    `json:"fields,omitempty"` // struct; slice order = map insertion order
	Extra    []string   `json:"extra,omitempty"`  // struct: extra destination fields (string typed) the schema does not name
	Coercer  string     `json:"coercer,omitempty"`
	Layout   string     `json:"layout,omitempty"`  // time: z.Time.Format(layout)
	CustomT  string     `json:"customT,omitempty"` // custom: "string" | "int"
	CustomFn string     `json:"customFn,omitempty"`
	PreFn    string     `json:"preFn,omitempty"`   // preprocess behaviour: trim | maybe | split | error | any | ptr | vtrim | vmaybe | verror
	Via      string     `json:"via,omitempty"`     // struct: how the schema object is assembled: "" (literal) | merge | extend | omit | pick
	TypeRot  int        `json:"typeRot,omitempty"` // shared struct nodes: rotate the destination type's field order at this use
	ShareID  int        `json:"share,omitempty"`   // nodes with the same non-zero ShareID are built as ONE schema object
	ID       int        `json:"id"`                // preorder number, set by Number()
}

// Number assigns preorder ids and returns the number of nodes.
func (n *Node) Number() int {
	c := 0
	var rec func(*Node)
	rec = func(x *Node) {
		x.ID = c
		c++
		if x.Elem != nil {
			rec(x.Elem)
		}
		for i := range x.Fields {
			rec(x.Fields[i].Node)
		}
	}
	rec(n)
	return c
}

// Walk visits every node in preorder.
func (n *Node) Walk(f func(*Node)) {
	f(n)
	if n.Elem != nil {
		n.Elem.Walk(f)
	}
	for i := range n.Fields {
		n.Fields[i].Node.Walk(f)
	}
}

// ExportKeys renames every struct field key to its exported Go field name and drops the tags, so that a Go struct
// of the destination's own type can serve as input data (zog addresses struct data by field name).
func (n *Node) ExportKeys() {
	n.Walk(func(x *Node) {
		for i := range x.Fields {
			x.Fields[i].Key = x.Fields[i].GoName()
			x.Fields[i].Tags = nil
		}
	})
}

// ZType is the zconst.ZogType the node reports in issues.
func (n *Node) ZType() string {
	switch n.Kind {
	case KString:
		return "string"
	case KInt, KInt32, KInt64, KFloat32, KFloat64:
		return "number"
	case KBool:
		return "bool"
	case KTime:
		return "time"
	case KSlice:
		return "slice"
	case KStruct:
		return "struct"
	case KPtr, KPre:
		return n.Elem.ZType()
	case KCustom:
		return "custom"
	}
	return "?"
}

func Hash(s string) uint64 {
	h := fnv.New64a()
	h.Write([]byte(s))
	return h.Sum64()
}

func SortedKeys[V any](m map[string]V) []string {
	ks := make([]string, 0, len(m))
	for k := range m {
		ks = append(ks, k)
	}
	sort.Strings(ks)
	return ks
}

type testWire struct {
	Name string `json:"name"`
	Not  bool   `json:"not,omitempty"`
	N    int    `json:"n,omitempty"`
	Str  string `json:"str,omitempty"`
	XStr string `json:"xstr,omitempty"`
	Arg  *Val   `json:"arg,omitempty"`
	Args []Val  `json:"args,omitempty"`
	Opts Opts   `json:"opts,omitempty"`
	AsV  bool   `json:"asValue,omitempty"`
	Cx   string `json:"complex,omitempty"`
}

func (t TestSpec) MarshalJSON() ([]byte, error) {
	w := testWire{Name: t.Name, Not: t.Not, N: t.N, Str: t.Str, Arg: t.Arg, Args: t.Args, Opts: t.Opts, AsV: t.AsValue, Cx: t.Complex}
	if !utf8.ValidString(t.Str) {
		w.Str, w.XStr = "", hex.EncodeToString([]byte(t.Str))
	}
	return json.Marshal(w)
}

func (t *TestSpec) UnmarshalJSON(b []byte) error {
	var w testWire
	if err := json.Unmarshal(b, &w); err != nil {
		return err
	}
	*t = TestSpec{Name: w.Name, Not: w.Not, N: w.N, Str: w.Str, Arg: w.Arg, Args: w.Args, Opts: w.Opts, AsValue: w.AsV, Complex: w.Cx}
	if w.XStr != "" {
		raw, err := hex.DecodeString(w.XStr)
		if err != nil {
			return err
		}
		t.Str = string(raw)
	}
	return nil
}
