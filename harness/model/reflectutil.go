package model

import (
	"reflect"
	"time"
)

// DeepCopy returns a new addressable value holding a deep copy of v.
func DeepCopy(v reflect.Value) reflect.Value {
	out := reflect.New(v.Type()).Elem()
	deepCopyInto(out, v)
	return out
}

func deepCopyInto(dst, src reflect.Value) {
	switch src.Kind() {
	case reflect.Pointer:
		if src.IsNil() {
			return
		}
		p := reflect.New(src.Type().Elem())
		deepCopyInto(p.Elem(), src.Elem())
		dst.Set(p)
	case reflect.Slice:
		if src.IsNil() {
			return
		}
		s := reflect.MakeSlice(src.Type(), src.Len(), src.Len())
		for i := 0; i < src.Len(); i++ {
			deepCopyInto(s.Index(i), src.Index(i))
		}
		dst.Set(s)
	case reflect.Struct:
		if _, ok := src.Interface().(time.Time); ok {
			dst.Set(src)
			return
		}
		for i := 0; i < src.NumField(); i++ {
			deepCopyInto(dst.Field(i), src.Field(i))
		}
	case reflect.Map:
		if src.IsNil() {
			return
		}
		m := reflect.MakeMapWithSize(src.Type(), src.Len())
		it := src.MapRange()
		for it.Next() {
			e := reflect.New(src.Type().Elem()).Elem()
			deepCopyInto(e, it.Value())
			m.SetMapIndex(it.Key(), e)
		}
		dst.Set(m)
	case reflect.Interface:
		if src.IsNil() {
			return
		}
		e := reflect.New(src.Elem().Type()).Elem()
		deepCopyInto(e, src.Elem())
		dst.Set(e)
	default:
		dst.Set(src)
	}
}

// Prefill writes recognisable sentinel values into every part of a destination.
func Prefill(v reflect.Value, salt int) {
	switch v.Kind() {
	case reflect.String:
		v.SetString("§sentinel")
	case reflect.Int, reflect.Int32, reflect.Int64:
		v.SetInt(int64(-7770 - salt%7))
	case reflect.Float32, reflect.Float64:
		v.SetFloat(-77.25)
	case reflect.Bool:
		v.SetBool(salt%2 == 0)
	case reflect.Pointer:
		if salt%3 != 0 {
			p := reflect.New(v.Type().Elem())
			Prefill(p.Elem(), salt+1)
			v.Set(p)
		}
	case reflect.Slice:
		s := reflect.MakeSlice(v.Type(), 2, 2)
		Prefill(s.Index(0), salt+1)
		Prefill(s.Index(1), salt+2)
		v.Set(s)
	case reflect.Struct:
		if _, ok := v.Interface().(time.Time); ok {
			v.Set(reflect.ValueOf(time.Date(1999, 9, 9, 9, 9, 9, 0, time.UTC)))
			return
		}
		for i := 0; i < v.NumField(); i++ {
			Prefill(v.Field(i), salt+i+1)
		}
	}
}
