package model

import (
	"fmt"
	"math"
	"reflect"
	"strconv"
	"strings"
	"time"
)

// The executable specification: a pure recursive interpreter of a Node over an
// input (Parse) or a destination value (Validate), written from the
// documentation and the property statements. It shares no state between nodes
// (no contexts, flags or pools), which is exactly what the properties demand of
// the implementation.

type SpecCfg struct {
	Mode string // parse | validate
	// KeyOf gives the input key / path segment of a struct field. nil = zog tag, else schema key.
	KeyOf func(f Field) string
	// Flat is the record of a flat source (form, query, environment): nested
	// struct schemas resolve their fields against it.
	Flat map[string]any
}

type CatchObs struct {
	Node   int
	Path   string
	Caught bool
	Dst    reflect.Value // the expected destination of the catching node
	Loc    []string      // how to reach the node's destination from the root: "F:<GoName>", "I:<idx>", "P"
}

// Locate follows a location from a root destination value; ok=false if a nil
// pointer or a short slice is in the way.
func Locate(root reflect.Value, loc []string) (reflect.Value, bool) {
	v := root
	for _, step := range loc {
		switch step[0] {
		case 'F':
			v = v.FieldByName(step[2:])
		case 'I':
			i, _ := strconv.Atoi(step[2:])
			if v.Kind() != reflect.Slice || i >= v.Len() {
				return reflect.Value{}, false
			}
			v = v.Index(i)
		case 'P':
			if v.Kind() != reflect.Pointer || v.IsNil() {
				return reflect.Value{}, false
			}
			v = v.Elem()
		}
	}
	return v, true
}

func locAdd(loc []string, step string) []string {
	out := make([]string, len(loc)+1)
	copy(out, loc)
	out[len(loc)] = step
	return out
}

type SpecOut struct {
	Issues []Iss
	// Ran counts the expected invocations of recorder tests / custom functions: key = node id*1000+test idx (custom: idx 999).
	Ran map[int]int
	// Unknown is non-empty when the case leaves the domain the documentation determines.
	Unknown string
	// DestUnknown is set when the destination content is not determined even on success.
	DestUnknown bool
	Catches     []CatchObs
	// Violations counts nodes whose own constraints are violated (issues before catching).
	CaughtCount int
	Detailed    []DetIss
	cur         *Node
	curIdx      int
	risky       bool
	postGated   bool
	failing     []failingPost // visits of PostTransforms that return an error, met while no issue existed
	failGated   bool          // a failing PostTransform was met after an issue existed
	failedHere  *Node
	// PostFailed: the execution's only issue comes from a PostTransform that returned an error
	PostFailed bool
}

type failingPost struct {
	path      string
	node      *Node
	behaviour string
}

func (o *SpecOut) unknown(f string, a ...any) {
	if o.Unknown == "" {
		o.Unknown = fmt.Sprintf(f, a...)
	}
}

// DetIss ties an expected issue to the node and test that produce it
// (Idx: test index, -1 required / not_nil, -2 coerce, 999 custom function).
type DetIss struct {
	Iss
	Node *Node
	Idx  int
}

func (o *SpecOut) add(path, code, dtype string) {
	o.Issues = append(o.Issues, Iss{Path: path, Code: code, Dtype: dtype})
	o.Detailed = append(o.Detailed, DetIss{Iss: Iss{Path: path, Code: code, Dtype: dtype}, Node: o.cur, Idx: o.curIdx})
}

func (o *SpecOut) ran(n *Node, idx int) {
	if o.Ran == nil {
		o.Ran = map[int]int{}
	}
	o.Ran[n.ID*1000+idx]++
}

func defaultKeyOf(f Field) string {
	if t, ok := f.Tags["zog"]; ok {
		return t
	}
	return f.Key
}

// IsParseAbsent: nil, or a string that is empty after trimming white space.
func IsParseAbsent(x any) bool {
	if x == nil {
		return true
	}
	if s, ok := x.(string); ok {
		return strings.TrimSpace(s) == ""
	}
	return false
}

// Spec runs the specification. dst must be an addressable value of the
// destination type: for Parse a clone of the (pre-filled) destination, which
// the specification turns into the expected destination; for Validate a clone
// of the value under validation.
func Spec(n *Node, cfg SpecCfg, in any, dst reflect.Value) *SpecOut {
	out := &SpecOut{risky: riskyPosts(n, false)}
	if cfg.KeyOf == nil {
		cfg.KeyOf = defaultKeyOf
	}
	func() {
		defer func() {
			if p := recover(); p != nil {
				if u, ok := p.(Uncertain); ok {
					out.unknown("%s", string(u))
					return
				}
				panic(p)
			}
		}()
		if cfg.Mode == "parse" {
			specParse(n, cfg, in, dst, "", nil, out)
		} else {
			specValidate(n, cfg, dst, "", nil, out)
		}
	}()
	if len(out.failing) > 0 || out.failGated {
		switch {
		case len(out.Issues) > 0 || len(out.failing) != 1:
			out.unknown("a failing PostTransform next to other issues or other failing PostTransforms (visit-order dependent by the documented gating)")
		default:
			f := out.failing[0]
			out.cur, out.curIdx = f.node, -3
			if f.behaviour == "issue" {
				out.add("post.path", "post_issue", "*") // a returned ZogIssue is reported as it is
			} else if f.behaviour == "ctxissue" {
				out.add(f.path, "post_ctx", f.node.ZType()) // ctx.Issue() is prefilled with the node's path and type
			} else if f.behaviour == "issue-nopath" {
				out.add("", "post_issue", "*") // ... also when it names no path
			} else {
				out.add(f.path, "*", "*") // an issue wrapping the returned error at the node's path
			}
			out.PostFailed = true
			out.DestUnknown = true
		}
	}
	if len(out.Issues) > 0 && out.risky {
		out.unknown("issues present and a mutating PostTransform sits below a data-dependent test (visit-order dependent by the documented gating)")
	}
	SortIss(out.Issues)
	return out
}

func joinKey(path, key string) string {
	if path == "" {
		return key
	}
	return path + "." + key
}

func reqCode(n *Node, def string) string {
	if n.ReqOpts != nil && n.ReqOpts.Code != "" {
		return n.ReqOpts.Code
	}
	return def
}

func reqPath(n *Node, path string) string {
	if n.ReqOpts != nil && n.ReqOpts.Path != "" {
		return n.ReqOpts.Path
	}
	return path
}

// runTests evaluates the node's tests on the expected destination value and
// handles Catch. It returns false if the node caught.
func runTests(n *Node, dst reflect.Value, path string, out *SpecOut) {
	for i, ts := range n.Tests {
		if ts.Name == "func" {
			out.ran(n, i)
		}
		ok := EvalTest(n.Kind, ts, dst)
		if ts.Not {
			ok = !ok
		}
		if ok {
			continue
		}
		if n.Catch != nil {
			setCatch(n, dst, path, out)
			return
		}
		p := path
		if ts.Opts.Path != "" {
			p = ts.Opts.Path
		}
		out.cur, out.curIdx = n, i
		switch ts.Complex {
		case "hand", "sentinel":
			// a hand-built issue says nothing but what its author wrote: no path (the map files it under $root), no type
			out.add("", ts.Opts.Code, "")
		case "handpath":
			out.add(ts.Opts.Path, ts.Opts.Code, "")
		case "ctx2":
			out.add(p, ts.Opts.Code, n.ZType())
			out.add(p, ts.Opts.Code+"_b", n.ZType())
		default:
			out.add(p, ExpectedCode(n.Kind, ts), n.ZType())
		}
	}
}

func setCatch(n *Node, dst reflect.Value, path string, out *SpecOut) {
	SetFromVal(dst, *n.Catch)
	out.CaughtCount++
	for i := range out.Catches {
		if out.Catches[i].Node == n.ID && out.Catches[i].Path == path {
			out.Catches[i].Caught = true
		}
	}
}

func (o *SpecOut) schedulePosts(n *Node, dst reflect.Value, path string, absentOptional bool) {
	for _, p := range n.Posts {
		if o.failedHere == n && !absentOptional {
			break // the first error returned stops the node's remaining PostTransforms
		}
		switch p.Behaviour {
		case "mutate":
			if absentOptional {
				// Whether a PostTransform runs on a skipped node is not fixed by the
				// documentation; the destination is then not part of any expectation,
				// and neither is a data-dependent test of an enclosing node.
				o.DestUnknown = true
				if o.risky {
					o.unknown("PostTransform on a skipped node below a data-dependent test")
				}
				continue
			}
			// PostTransforms run when their node completes and no issue exists at
			// that moment (documented global gating).
			if len(o.Issues) == 0 {
				ApplyPostMutation(dst)
			} else {
				o.postGated = true
			}
		case "error", "issue", "issue-nopath", "wrapped", "ctxissue":
			// A failing PostTransform is determined only when it is the single such visit of the execution and
			// nothing else produces an issue (otherwise which transform still runs depends on the visit order,
			// by the documented gating); Spec() settles that once the whole record has been read.
			if absentOptional {
				o.unknown("failing PostTransform on a skipped node")
				continue
			}
			if len(o.Issues) > 0 {
				o.postGated = true
				o.failGated = true
				continue
			}
			o.failing = append(o.failing, failingPost{path: path, node: n, behaviour: p.Behaviour})
			o.failedHere = n
		}
	}
}

// riskyPosts reports whether some mutating PostTransform sits below a node with
// a data-dependent test: then, in an execution that has issues, whether the
// transform ran before that test depends on the field visit order.
// RiskyPosts is riskyPosts for a whole schema.
func RiskyPosts(root *Node) bool { return riskyPosts(root, false) }

func riskyPosts(n *Node, underDataTest bool) bool {
	if underDataTest {
		for _, p := range n.Posts {
			if p.Behaviour == "mutate" {
				return true
			}
		}
	}
	for _, ts := range n.Tests {
		if (ts.Name == "func" && ts.Str != "pass" && ts.Str != "fail") || ts.Name == "contains" {
			underDataTest = true
		}
	}
	if n.Elem != nil && riskyPosts(n.Elem, underDataTest) {
		return true
	}
	for _, f := range n.Fields {
		if riskyPosts(f.Node, underDataTest) {
			return true
		}
	}
	return false
}

func specParse(n *Node, cfg SpecCfg, in any, dst reflect.Value, path string, loc []string, out *SpecOut) {
	if n.Catch != nil {
		out.Catches = append(out.Catches, CatchObs{Node: n.ID, Path: path, Dst: dst, Loc: loc})
	}
	switch {
	case IsPrimitive(n.Kind):
		if IsParseAbsent(in) {
			switch {
			case n.Def != nil:
				SetFromVal(dst, *n.Def)
			case n.Req:
				if n.Catch != nil {
					setCatch(n, dst, path, out)
					out.schedulePosts(n, dst, path, false)
					return
				}
				out.cur, out.curIdx = n, -1
				out.add(reqPath(n, path), reqCode(n, "required"), n.ZType())
				return
			default:
				out.schedulePosts(n, dst, path, true)
				return
			}
		} else {
			v, verdict := Coerce(n, in)
			switch verdict {
			case CoerceUnknown:
				out.unknown("coercion of %T(%v) to %s is not determined by the documentation", in, in, n.Kind)
				return
			case CoerceFail:
				if n.Catch != nil {
					setCatch(n, dst, path, out)
					out.schedulePosts(n, dst, path, false)
					return
				}
				out.cur, out.curIdx = n, -2
				out.add(path, "coerce", n.ZType())
				return
			}
			dst.Set(reflect.ValueOf(v).Convert(dst.Type()))
		}
		runTests(n, dst, path, out)
		out.schedulePosts(n, dst, path, false)
	case n.Kind == KSlice:
		var elems []any
		if IsParseAbsent(in) {
			switch {
			case n.Def != nil:
				for _, e := range n.Def.L {
					ev := reflect.New(dst.Type().Elem()).Elem()
					SetFromVal(ev, e) // default elements are values of the element type (possibly slices themselves)
					elems = append(elems, ev.Interface())
				}
			case n.Req:
				out.cur, out.curIdx = n, -1
				out.add(reqPath(n, path), reqCode(n, "required"), "slice")
				return
			default:
				out.schedulePosts(n, dst, path, true)
				return
			}
		} else if n.Coercer == "custom" || n.Coercer == "global" {
			if s, ok := in.(string); ok && s == "COERCE-ERR" {
				out.cur, out.curIdx = n, -2
				out.add(path, "coerce", "slice")
				return
			}
			c := CustomCoerce(KSlice, in)
			rv := reflect.ValueOf(c)
			for i := 0; i < rv.Len(); i++ {
				elems = append(elems, rv.Index(i).Interface())
			}
		} else {
			rv := reflect.ValueOf(in)
			switch rv.Kind() {
			case reflect.Slice:
				for i := 0; i < rv.Len(); i++ {
					elems = append(elems, rv.Index(i).Interface())
				}
			case reflect.Map, reflect.Array, reflect.Pointer, reflect.Chan, reflect.Func:
				out.unknown("boxing of %T into a slice is not determined by the documentation", in)
				return
			default:
				elems = []any{in}
			}
		}
		dst.Set(reflect.MakeSlice(dst.Type(), len(elems), len(elems)))
		for i, e := range elems {
			specParse(n.Elem, cfg, e, dst.Index(i), fmt.Sprintf("%s[%d]", path, i), locAdd(loc, fmt.Sprintf("I:%d", i)), out)
		}
		runTests(n, dst, path, out)
		out.schedulePosts(n, dst, path, false)
	case n.Kind == KStruct:
		get, ok := structGetter(in)
		if _, nested := in.(FlatNested); nested && cfg.Flat != nil {
			get, ok = func(k string) any { return cfg.Flat[k] }, true
		}
		if !ok {
			switch reflect.ValueOf(in).Kind() {
			case reflect.Struct, reflect.Pointer, reflect.Map: // (time.Time, pointers, other map types)
				// Go structs (time.Time is one), pointers and other map types are
				// input forms whose treatment this specification does not model
				out.unknown("struct schema given %T", in)
				return
			}
			out.cur, out.curIdx = n, -2
			out.add(path, "coerce", "struct")
			return
		}
		for _, f := range n.Fields {
			key := cfg.KeyOf(f)
			specParse(f.Node, cfg, get(key), dst.FieldByName(f.GoName()), joinKey(path, key), locAdd(loc, "F:"+f.GoName()), out)
		}
		runTests(n, dst, path, out)
		out.schedulePosts(n, dst, path, false)
	case n.Kind == KPtr:
		if IsParseAbsent(in) {
			if n.Req {
				out.cur, out.curIdx = n, -1
				out.add(reqPath(n, path), reqCode(n, "not_nil"), n.ZType())
			}
			return
		}
		if dst.IsNil() {
			dst.Set(reflect.New(dst.Type().Elem()))
		}
		specParse(n.Elem, cfg, in, dst.Elem(), path, locAdd(loc, "P"), out)
	case n.Kind == KCustom:
		ok := false
		switch n.CustomT {
		case "string":
			_, ok = in.(string)
		case "int":
			_, ok = in.(int)
		}
		if !ok {
			out.cur, out.curIdx = n, -2
			out.add(path, "coerce", "custom")
			return
		}
		dst.Set(reflect.ValueOf(in))
		out.ran(n, 999)
		if n.CustomFn == "normalize" {
			ApplyCustomNorm(dst)
		}
		if !EvalFunc(n.CustomFn, dst) {
			ts := TestSpec{Name: "func", Opts: Opts{Code: "custom_fail"}}
			if len(n.Tests) == 1 {
				ts = n.Tests[0]
			}
			p := path
			if ts.Opts.Path != "" {
				p = ts.Opts.Path
			}
			out.cur, out.curIdx = n, 999
			out.add(p, ts.Opts.Code, "custom")
		}
	case n.Kind == KPre:
		// Preprocess: the function sees the raw input before any absent rule; a
		// type mismatch or an error becomes an issue and the wrapped schema is skipped
		dtype := n.Elem.ZType()
		if n.PreFn == "any" {
			if in == nil {
				out.cur, out.curIdx = n, -2
				out.add(path, "*", dtype)
				return
			}
			specParse(n.Elem, cfg, in, dst, path, loc, out)
			return
		}
		s, ok := in.(string)
		if !ok {
			out.cur, out.curIdx = n, -2
			out.add(path, "*", dtype)
			return
		}
		switch n.PreFn {
		case "trim":
			specParse(n.Elem, cfg, strings.TrimSpace(s), dst, path, loc, out)
		case "split":
			specParse(n.Elem, cfg, strings.Split(s, ","), dst, path, loc, out)
		case "error":
			out.cur, out.curIdx = n, -3
			out.add(path, "*", dtype)
		case "maybe":
			if strings.Contains(s, "bad") {
				out.cur, out.curIdx = n, -3
				out.add(path, "*", dtype)
				return
			}
			specParse(n.Elem, cfg, s, dst, path, loc, out)
		case "ptrnum":
			if v, err := strconv.Atoi(strings.TrimSpace(s)); err == nil {
				specParse(n.Elem, cfg, v, dst, path, loc, out) // a pointer to 0 is a present 0
			} else {
				specParse(n.Elem, cfg, nil, dst, path, loc, out)
			}
		case "ptr":
			// a pointer result is looked through; a nil pointer is no value at all
			if strings.Contains(s, "none") {
				specParse(n.Elem, cfg, nil, dst, path, loc, out)
				return
			}
			specParse(n.Elem, cfg, strings.TrimSpace(s), dst, path, loc, out)
		default:
			out.unknown("preprocess function %s", n.PreFn)
		}
	default:
		out.unknown("node kind %s is outside the generic specification", n.Kind)
	}
}

// structGetter accepts the input forms a struct schema is documented to take:
// nil (every field absent), map[string]T for T in any/string/int/float64/bool,
// and pointers to those.
func StructGetter(in any) (func(string) any, bool) { return structGetter(in) }

func structGetter(in any) (func(string) any, bool) {
	switch m := in.(type) {
	case nil:
		return func(string) any { return nil }, true
	case map[string]any:
		return func(k string) any { return m[k] }, true
	// typed maps: a missing key is absent, exactly as in a map[string]any
	case map[string]string:
		return func(k string) any {
			if v, ok := m[k]; ok {
				return v
			}
			return nil
		}, true
	case map[string]int:
		return func(k string) any {
			if v, ok := m[k]; ok {
				return v
			}
			return nil
		}, true
	case map[string]float64:
		return func(k string) any {
			if v, ok := m[k]; ok {
				return v
			}
			return nil
		}, true
	case map[string]bool:
		return func(k string) any {
			if v, ok := m[k]; ok {
				return v
			}
			return nil
		}, true
	case *map[string]any:
		if m == nil {
			return func(string) any { return nil }, true
		}
		return structGetter(*m)
	case time.Time:
		return nil, false
	}
	// any other map with string keys (user-defined map types, other element types): the entry, absent when missing
	if rv := reflect.ValueOf(in); rv.Kind() == reflect.Map && rv.Type().Key() == reflect.TypeOf("") {
		return func(k string) any {
			if e := rv.MapIndex(reflect.ValueOf(k)); e.IsValid() {
				return e.Interface()
			}
			return nil
		}, true
	}
	// a Go struct as data: the value of the exported field named like the key; anything else is absent
	if rv := reflect.ValueOf(in); rv.Kind() == reflect.Struct {
		return func(k string) any {
			sf, ok := rv.Type().FieldByName(k)
			if !ok || !sf.IsExported() || len(sf.Index) != 1 {
				return nil
			}
			return rv.Field(sf.Index[0]).Interface()
		}, true
	}
	return nil, false
}

func specValidate(n *Node, cfg SpecCfg, dst reflect.Value, path string, loc []string, out *SpecOut) {
	if n.Catch != nil {
		out.Catches = append(out.Catches, CatchObs{Node: n.ID, Path: path, Dst: dst, Loc: loc})
	}
	switch {
	case IsPrimitive(n.Kind):
		if dst.IsZero() {
			switch {
			case n.Def != nil:
				SetFromVal(dst, *n.Def)
			case n.Req:
				if n.Catch != nil {
					setCatch(n, dst, path, out)
					out.schedulePosts(n, dst, path, false)
					return
				}
				out.cur, out.curIdx = n, -1
				out.add(reqPath(n, path), reqCode(n, "required"), n.ZType())
				return
			default:
				out.schedulePosts(n, dst, path, true)
				return
			}
		}
		runTests(n, dst, path, out)
		out.schedulePosts(n, dst, path, false)
	case n.Kind == KSlice:
		if dst.Len() == 0 {
			switch {
			case n.Def != nil:
				SetFromVal(dst, *n.Def)
			case n.Req:
				out.cur, out.curIdx = n, -1
				out.add(reqPath(n, path), reqCode(n, "required"), "slice")
				return
			default:
				out.schedulePosts(n, dst, path, true)
				return
			}
		}
		for i := 0; i < dst.Len(); i++ {
			specValidate(n.Elem, cfg, dst.Index(i), fmt.Sprintf("%s[%d]", path, i), locAdd(loc, fmt.Sprintf("I:%d", i)), out)
		}
		runTests(n, dst, path, out)
		out.schedulePosts(n, dst, path, false)
	case n.Kind == KStruct:
		for _, f := range n.Fields {
			specValidate(f.Node, cfg, dst.FieldByName(f.GoName()), joinKey(path, cfg.KeyOf(f)), locAdd(loc, "F:"+f.GoName()), out)
		}
		runTests(n, dst, path, out)
		out.schedulePosts(n, dst, path, false)
	case n.Kind == KPtr:
		if dst.IsNil() {
			if n.Req {
				out.cur, out.curIdx = n, -1
				out.add(reqPath(n, path), reqCode(n, "not_nil"), n.ZType())
			}
			return
		}
		specValidate(n.Elem, cfg, dst.Elem(), path, locAdd(loc, "P"), out)
	case n.Kind == KCustom:
		out.ran(n, 999)
		if n.CustomFn == "normalize" {
			ApplyCustomNorm(dst)
		}
		if !EvalFunc(n.CustomFn, dst) {
			ts := TestSpec{Name: "func", Opts: Opts{Code: "custom_fail"}}
			if len(n.Tests) == 1 {
				ts = n.Tests[0]
			}
			p := path
			if ts.Opts.Path != "" {
				p = ts.Opts.Path
			}
			out.cur, out.curIdx = n, 999
			out.add(p, ts.Opts.Code, "custom")
		}
	case n.Kind == KPre:
		// Validate: the function gets a pointer to the value; an error becomes an issue and the wrapped
		// schema is skipped, otherwise its output replaces the value, which is then validated
		s := dst.String()
		switch n.PreFn {
		case "vtrim":
			dst.SetString(strings.TrimSpace(s))
		case "verror":
			out.cur, out.curIdx = n, -3
			out.add(path, "*", n.Elem.ZType())
			return
		case "vmaybe":
			if strings.Contains(s, "bad") {
				out.cur, out.curIdx = n, -3
				out.add(path, "*", n.Elem.ZType())
				return
			}
			dst.SetString(s + "+")
		default:
			out.unknown("preprocess function %s in Validate", n.PreFn)
			return
		}
		specValidate(n.Elem, cfg, dst, path, loc, out)
	default:
		out.unknown("node kind %s is outside the generic specification", n.Kind)
	}
}

// ---- coercion table (documentation: "Parsing results" table, parsing page, reference) ----

type CoerceVerdict int

const (
	CoerceOK CoerceVerdict = iota
	CoerceFail
	CoerceUnknown
)

var (
	decimalRe = func(s string) bool { // -?[0-9]+
		if s == "" {
			return false
		}
		i := 0
		if s[0] == '-' {
			i = 1
		}
		if i == len(s) {
			return false
		}
		for ; i < len(s); i++ {
			if s[i] < '0' || s[i] > '9' {
				return false
			}
		}
		return true
	}
)

// isJunkNumber: strings that no documented numeric syntax can accept: they
// contain a letter other than those of exponent/hex/inf/nan notations, or no digit at all.
func isJunkNumber(s string) bool {
	hasDigit := false
	for i := 0; i < len(s); i++ {
		c := s[i]
		if c >= '0' && c <= '9' {
			hasDigit = true
			continue
		}
		if strings.IndexByte("ghjklmoqrsuvwzGHJKLMOQRSUVWZ", c) >= 0 {
			return true
		}
	}
	if !hasDigit && !strings.ContainsAny(s, "infatyINFATY") {
		return true
	}
	return false
}

func intRange(kind string) (lo, hi int64) {
	switch kind {
	case KInt32:
		return math.MinInt32, math.MaxInt32
	}
	return math.MinInt64, math.MaxInt64
}

// BoolStrings are the documented string forms of booleans.
var BoolStrings = map[string]bool{
	"on": true, "off": false,
	"1": true, "t": true, "T": true, "TRUE": true, "true": true, "True": true,
	"0": false, "f": false, "F": false, "FALSE": false, "false": false, "False": false,
}

// Coerce is the documented coercion of a present input to the node's type.
func Coerce(n *Node, in any) (any, CoerceVerdict) {
	if n.Coercer == "custom" {
		if s, ok := in.(string); ok && s == "COERCE-ERR" {
			return nil, CoerceFail
		}
		return CustomCoerce(n.Kind, in), CoerceOK
	}
	if n.Coercer == "global" {
		// the global override computes the base kind's function; width adapters convert
		if s, ok := in.(string); ok && s == "COERCE-ERR" {
			return nil, CoerceFail
		}
		return CustomCoerce(BaseKind(n.Kind), in), CoerceOK
	}
	switch n.Kind {
	case KString:
		if s, ok := in.(string); ok {
			return s, CoerceOK
		}
		return fmt.Sprintf("%v", in), CoerceOK
	case KInt, KInt32, KInt64:
		lo, hi := intRange(n.Kind)
		fit := func(x int64) (any, CoerceVerdict) {
			if x < lo || x > hi {
				return nil, CoerceUnknown // range behaviour is C18's subject
			}
			return x, CoerceOK
		}
		switch v := in.(type) {
		case int:
			return fit(int64(v))
		case int32:
			return fit(int64(v))
		case int64:
			return fit(v)
		case float64:
			if math.IsNaN(v) || math.IsInf(v, 0) || v >= 9.2e18 || v <= -9.2e18 {
				return nil, CoerceUnknown
			}
			return fit(int64(math.Trunc(v)))
		case bool:
			if v {
				return int64(1), CoerceOK
			}
			return int64(0), CoerceOK
		case string:
			if decimalRe(v) {
				x, err := strconv.ParseInt(v, 10, 64)
				if err != nil {
					return nil, CoerceUnknown
				}
				return fit(x)
			}
			if isJunkNumber(v) {
				return nil, CoerceFail
			}
			return nil, CoerceUnknown
		case time.Time, []any, map[string]any:
			return nil, CoerceFail
		}
		return nil, CoerceUnknown
	case KFloat32, KFloat64:
		conv := func(f float64) (any, CoerceVerdict) {
			if n.Kind == KFloat32 {
				if math.Abs(f) > math.MaxFloat32 {
					return nil, CoerceUnknown
				}
				return float32(f), CoerceOK
			}
			return f, CoerceOK
		}
		switch v := in.(type) {
		case int:
			if v > 1<<53 || v < -(1<<53) {
				return nil, CoerceUnknown
			}
			return conv(float64(v))
		case float64:
			if math.IsNaN(v) || math.IsInf(v, 0) {
				return nil, CoerceUnknown
			}
			return conv(v)
		case float32:
			if v != v || math.IsInf(float64(v), 0) {
				return nil, CoerceUnknown
			}
			return conv(float64(v))
		case string:
			if isPlainDecimalFloat(v) {
				f, err := strconv.ParseFloat(v, 64)
				if err != nil {
					return nil, CoerceUnknown
				}
				return conv(f)
			}
			if isJunkNumber(v) {
				return nil, CoerceFail
			}
			return nil, CoerceUnknown
		case time.Time, []any, map[string]any:
			return nil, CoerceFail
		}
		return nil, CoerceUnknown
	case KBool:
		switch v := in.(type) {
		case bool:
			return v, CoerceOK
		case string:
			if b, ok := BoolStrings[v]; ok {
				return b, CoerceOK
			}
			return nil, CoerceFail
		case int:
			switch v {
			case 0:
				return false, CoerceOK
			case 1:
				return true, CoerceOK
			}
			return nil, CoerceFail
		case time.Time, []any, map[string]any:
			return nil, CoerceFail
		}
		return nil, CoerceUnknown
	case KTime:
		switch v := in.(type) {
		case time.Time:
			return v, CoerceOK
		case string:
			layout := time.RFC3339
			if n.Layout != "" {
				layout = n.Layout
			}
			t, err := time.Parse(layout, v)
			if err != nil {
				return nil, CoerceFail
			}
			return t, CoerceOK
		case int:
			return time.Unix(int64(v), 0), CoerceOK
		case int64:
			return time.Unix(v, 0), CoerceOK
		case bool, []any, map[string]any:
			return nil, CoerceFail
		}
		return nil, CoerceUnknown
	}
	return nil, CoerceUnknown
}

func isPlainDecimalFloat(s string) bool { // -?[0-9]+(\.[0-9]+)?
	if s == "" {
		return false
	}
	i := 0
	if s[0] == '-' {
		i = 1
	}
	d := 0
	for ; i < len(s) && s[i] >= '0' && s[i] <= '9'; i++ {
		d++
	}
	if d == 0 {
		return false
	}
	if i == len(s) {
		return true
	}
	if s[i] != '.' {
		return false
	}
	i++
	d = 0
	for ; i < len(s) && s[i] >= '0' && s[i] <= '9'; i++ {
		d++
	}
	return d > 0 && i == len(s)
}

// OnlyPostFailure reports whether the specification determines the execution of (root, mode, input) completely as:
// exactly one issue, the one of a single failing PostTransform (or no issue at all). Such executions do not depend
// on the visit order although they contain a failing PostTransform.
func OnlyPostFailure(root *Node, mode string, input Val) bool {
	root.Number()
	_, typ := Build(root, &Env{Silent: true})
	dest := reflect.New(typ)
	var in any
	if mode == "validate" {
		SetFromVal(dest.Elem(), input)
	} else {
		in = input.Go()
	}
	spec := Spec(root, SpecCfg{Mode: mode}, in, dest.Elem())
	return spec.Unknown == "" && (len(spec.Issues) == 0 || (spec.PostFailed && len(spec.Issues) == 1))
}
