package model

import (
	"encoding/json"
	"reflect"
	"testing"
)

func TestSpaceJSON(t *testing.T) {
	docs := []string{`{}`, `{"a":1,"b":[1,2,{"c":"x\"y\\"}],"d":{"e":null,"f":true,"g":-1.5e3}}`, `{"a b":"{[,:]}"}`, `[]`, `{"k":""}`}
	for _, d := range docs {
		var want any
		if err := json.Unmarshal([]byte(d), &want); err != nil {
			t.Fatal(err)
		}
		for k := uint32(0); k < 200; k++ {
			s := SpaceJSON(d, k)
			var got any
			if err := json.Unmarshal([]byte(s), &got); err != nil {
				t.Fatalf("%q -> %q: %v", d, s, err)
			}
			if !reflect.DeepEqual(got, want) {
				t.Fatalf("%q -> %q differs", d, s)
			}
		}
	}
}
