package model

import (
	"bytes"
	"encoding/json"
	"fmt"
	"io"
	"net/http"
	"net/url"
	"os"
	"reflect"
	"sort"
	"strconv"
	"strings"
	"time"

	"github.com/Oudwins/zog/parsers/zjson"
	"github.com/Oudwins/zog/zenv"
	"github.com/Oudwins/zog/zhttp"
)

// Front ends through which one logical record can be supplied.
const (
	FEMap      = "map"       // Go map[string]any
	FEJSON     = "json"      // zjson.Decode
	FEHTTPJSON = "http-json" // zhttp.Request, application/json body
	FEForm     = "form"      // zhttp.Request, urlencoded body
	FEQuery    = "query"     // zhttp.Request, GET query string
	FEEnv      = "env"       // zenv.NewDataProvider
)

var AllFrontEnds = []string{FEMap, FEJSON, FEHTTPJSON, FEForm, FEQuery, FEEnv}

// SourceTag is the struct tag a front end consults first ("" for plain maps).
func SourceTag(fe string) string {
	switch fe {
	case FEJSON, FEHTTPJSON:
		return "json"
	case FEForm:
		return "form"
	case FEQuery:
		return "query"
	case FEEnv:
		return "env"
	}
	return ""
}

func IsFlat(fe string) bool { return fe == FEForm || fe == FEQuery || fe == FEEnv }

// KeyOfFE implements the documented key priority: source tag, else zog tag, else schema key.
func KeyOfFE(fe string) func(Field) string {
	st := SourceTag(fe)
	return func(f Field) string {
		if st != "" {
			if t, ok := f.Tags[st]; ok {
				return t
			}
		}
		return defaultKeyOf(f)
	}
}

// Rendered is one rendering of a logical record.
type Rendered struct {
	FE      string
	Data    any    // what is handed to Parse
	SpecIn  any    // what the specification interprets (the record as the front end presents it)
	Text    string // JSON text / encoded form / query string / env assignments, for samples
	Cleanup func()
	Req     *http.Request // zhttp renderings: the request the provider was made from
}

// scalarString renders a typed leaf the way a flat source carries it.
func scalarString(v Val) (string, bool) {
	switch v.T {
	case "string":
		return v.S, true
	case "int", "int32", "int64":
		return v.S, true
	case "float32", "float64":
		f := parseFloat(v.S, 64)
		return strconv.FormatFloat(f, 'f', -1, 64), true
	case "bool":
		return v.S, true
	case "time":
		return mustTime(v.S).Format(time.RFC3339Nano), true
	}
	return "", false
}

// jsonOf renders a logical value as JSON text with keys chosen by keyOf.
func jsonOf(n *Node, v Val, keyOf func(Field) string, sb *strings.Builder) error {
	switch {
	case v.IsNil():
		sb.WriteString("null")
	case n.Kind == KPtr:
		return jsonOf(n.Elem, v, keyOf, sb)
	case n.Kind == KStruct && v.T == "map":
		sb.WriteByte('{')
		first := true
		for _, kv := range v.M {
			var fld *Field
			for i := range n.Fields {
				if n.Fields[i].Key == kv.K {
					fld = &n.Fields[i]
				}
			}
			if fld == nil {
				// a key the schema does not know: passed through unchanged
				if !first {
					sb.WriteByte(',')
				}
				first = false
				kb, _ := json.Marshal(kv.K)
				sb.Write(kb)
				sb.WriteByte(':')
				if err := jsonOfLoose(kv.V, sb); err != nil {
					return err
				}
				continue
			}
			if !first {
				sb.WriteByte(',')
			}
			first = false
			kb, _ := json.Marshal(keyOf(*fld))
			sb.Write(kb)
			sb.WriteByte(':')
			if err := jsonOf(fld.Node, kv.V, keyOf, sb); err != nil {
				return err
			}
		}
		sb.WriteByte('}')
	case n.Kind == KSlice && (v.T == "list" || v.T == "strlist" || v.T == "intlist"):
		sb.WriteByte('[')
		for i, e := range v.L {
			if i > 0 {
				sb.WriteByte(',')
			}
			if err := jsonOf(n.Elem, e, keyOf, sb); err != nil {
				return err
			}
		}
		sb.WriteByte(']')
	default:
		switch v.T {
		case "string":
			b, _ := json.Marshal(v.S)
			sb.Write(b)
		case "int", "int32", "int64":
			sb.WriteString(v.S)
		case "float32", "float64":
			f := parseFloat(v.S, 64)
			sb.WriteString(strconv.FormatFloat(f, 'g', -1, 64))
		case "bool":
			sb.WriteString(v.S)
		case "time":
			b, _ := json.Marshal(mustTime(v.S).Format(time.RFC3339Nano))
			sb.Write(b)
		case "map":
			// a map where the schema has a leaf: keep it as an object of scalars
			b, _ := json.Marshal(v.Go())
			sb.Write(b)
		case "list":
			b, _ := json.Marshal(v.Go())
			sb.Write(b)
		default:
			return fmt.Errorf("cannot render %s as JSON", v.T)
		}
	}
	return nil
}

// rekey renders the logical record (struct values keyed by schema key) as the
// Go map a front end presents, with keys chosen by keyOf.
func rekey(n *Node, v Val, keyOf func(Field) string) any {
	switch {
	case v.IsNil():
		return nil
	case n.Kind == KPtr:
		return rekey(n.Elem, v, keyOf)
	case n.Kind == KStruct && v.T == "map":
		out := map[string]any{}
		for _, kv := range v.M {
			known := false
			for i := range n.Fields {
				if n.Fields[i].Key == kv.K {
					out[keyOf(n.Fields[i])] = rekey(n.Fields[i].Node, kv.V, keyOf)
					known = true
				}
			}
			if !known {
				if _, taken := out[kv.K]; !taken {
					out[kv.K] = kv.V.Go() // unknown key: passed through
				}
			}
		}
		return out
	case n.Kind == KSlice && v.T == "list":
		out := make([]any, len(v.L))
		for i, e := range v.L {
			out[i] = rekey(n.Elem, e, keyOf)
		}
		return out
	}
	return v.Go()
}

// flatPairs renders a logical record for a flat source: every leaf a string,
// lists as repeated parameters, nested struct fields resolved against the same
// flat source by their own key.
func flatPairs(n *Node, v Val, keyOf func(Field) string, out url.Values, order *[]string) error {
	for n.Kind == KPtr {
		n = n.Elem
	}
	if n.Kind != KStruct || (v.T != "map" && !v.IsNil()) {
		return fmt.Errorf("flat sources need a struct record")
	}
	if dup := flatKeyCollision(n, keyOf, map[string]bool{}); dup != "" {
		return fmt.Errorf("key %q is used twice in the flat namespace", dup)
	}
	for _, kv := range v.M {
		known := false
		for i := range n.Fields {
			known = known || n.Fields[i].Key == kv.K
		}
		if !known {
			if s, ok := scalarString(kv.V); ok && kv.K != "" {
				out.Add(kv.K, s) // unknown parameter: passed through
			}
			continue
		}
		for i := range n.Fields {
			f := n.Fields[i]
			if f.Key != kv.K {
				continue
			}
			fn := f.Node
			for fn.Kind == KPtr {
				fn = fn.Elem
			}
			key := keyOf(f)
			switch {
			case kv.V.IsNil():
				// absent: no parameter at all
			case fn.Kind == KStruct:
				if err := flatPairs(fn, kv.V, keyOf, out, order); err != nil {
					return err
				}
			case fn.Kind == KSlice:
				if len(kv.V.L) == 0 {
					return fmt.Errorf("a flat source cannot express an empty list")
				}
				if len(kv.V.L) == 1 && !strings.HasSuffix(key, "[]") {
					if s, _ := scalarString(kv.V.L[0]); strings.TrimSpace(s) == "" {
						return fmt.Errorf("a flat source cannot express a one-element list whose element is empty (unless the key ends in [])")
					}
				}
				for _, e := range kv.V.L {
					s, ok := scalarString(e)
					if !ok {
						return fmt.Errorf("flat sources carry lists of scalars only")
					}
					out.Add(key, s)
				}
				*order = append(*order, key)
			default:
				s, ok := scalarString(kv.V)
				if !ok {
					return fmt.Errorf("flat sources carry scalars only")
				}
				out.Add(key, s)
				*order = append(*order, key)
			}
		}
	}
	return nil
}

// flatKeyCollision reports a key that two fields (at any nesting depth) would share in a flat source.
func flatKeyCollision(n *Node, keyOf func(Field) string, seen map[string]bool) string {
	for _, f := range n.Fields {
		k := keyOf(f)
		if seen[k] {
			return k
		}
		seen[k] = true
		fn := f.Node
		for fn.Kind == KPtr {
			fn = fn.Elem
		}
		if fn.Kind == KStruct {
			if d := flatKeyCollision(fn, keyOf, seen); d != "" {
				return d
			}
		}
	}
	return ""
}

// flatSpecIn is the record as a flat source presents it to the schema: a single
// value as a string, a repeated one as a list, a missing one absent; nested
// struct schemas see the same flat record.
func flatSpecIn(n *Node, vals url.Values, keyOf func(Field) string, trim bool) map[string]any {
	for n.Kind == KPtr {
		n = n.Elem
	}
	out := map[string]any{}
	var walk func(n *Node)
	walk = func(n *Node) {
		for _, f := range n.Fields {
			fn := f.Node
			for fn.Kind == KPtr {
				fn = fn.Elem
			}
			key := keyOf(f)
			if fn.Kind == KStruct {
				out[key] = FlatNested{}
				walk(fn)
				continue
			}
			vs := vals[key]
			switch {
			case len(vs) == 0:
				if trim {
					out[key] = "" // the environment presents an unset variable as ""
				}
			case len(vs) == 1 && strings.HasSuffix(key, "[]") && !trim:
				out[key] = []any{vs[0]} // a []-suffixed parameter is presented as a list even when it occurs once
			case len(vs) == 1:
				if trim {
					out[key] = strings.TrimSpace(vs[0])
				} else {
					out[key] = vs[0]
				}
			default:
				l := make([]any, len(vs))
				for i, s := range vs {
					l[i] = s
				}
				out[key] = l
			}
		}
	}
	walk(n)
	return out
}

// FlatNested marks, in a flat specification input, the place of a nested struct
// whose fields are looked up in the same flat record.
type FlatNested struct{}

var (
	bodyMethods = []string{"POST", "PUT", "PATCH", "DELETE", "POST"}
	formMethods = []string{"POST", "PUT", "PATCH"} // net/http reads a form body for these methods only
	jsonCTypes  = []string{"application/json", "application/json; charset=utf-8", "application/json;charset=utf-8", "application/json",
		"application/json; charset=utf-8; profile=https://example.com/schemas/user.json", "application/json; utf-8", "application/json; charset=", "application/json;"}
	formCTypes = []string{"application/x-www-form-urlencoded", "application/x-www-form-urlencoded; charset=UTF-8", "application/x-www-form-urlencoded;charset=UTF-8"}
)

func fnv32(s string) uint32 {
	h := uint32(2166136261)
	for i := 0; i < len(s); i++ {
		h = (h ^ uint32(s[i])) * 16777619
	}
	return h >> 3
}

// retypeMap presents a record as one of the other Go map types a caller may hold it in: a user-defined map type,
// or, when every value has the same primitive type, a map of that type (exact or user-defined) or of int64.
func retypeMap(m map[string]any, k int) any {
	if len(m) == 0 || k%2 == 0 {
		return m
	}
	k /= 2
	same := reflect.TypeOf(nil)
	first := true
	for _, v := range m {
		t := reflect.TypeOf(v)
		if first {
			same, first = t, false
		} else if t != same {
			same = nil
		}
	}
	if same == nil {
		if k%2 == 0 {
			return NamedMap(m)
		}
		return m
	}
	var out reflect.Value
	switch same.Kind() {
	case reflect.String:
		out = reflect.ValueOf([]any{map[string]string{}, NamedStrMap{}}[k%2])
	case reflect.Int:
		out = reflect.ValueOf([]any{map[string]int{}, NamedIntMap{}, map[string]int64{}}[k%3])
	case reflect.Float64:
		out = reflect.ValueOf([]any{map[string]float64{}, NamedFloatMap{}}[k%2])
	case reflect.Bool:
		out = reflect.ValueOf([]any{map[string]bool{}, NamedBoolMap{}}[k%2])
	default:
		return NamedMap(m)
	}
	for key, v := range m {
		out.SetMapIndex(reflect.ValueOf(key), reflect.ValueOf(v).Convert(out.Type().Elem()))
	}
	return out.Interface()
}

// RenderFE renders the logical record for one front end.
func RenderFE(fe string, root *Node, logical Val) (*Rendered, error) {
	keyOf := KeyOfFE(fe)
	r := &Rendered{FE: fe, Cleanup: func() {}}
	switch fe {
	case FEMap:
		r.Data = rekey(root, logical, keyOf)
		r.Text = JSON(logical)
		if m, ok := r.Data.(map[string]any); ok {
			r.Data = retypeMap(m, int(fnv32(r.Text))) // the same record as another Go map type (chosen by the record's hash)
		}
		r.SpecIn = r.Data
	case FEJSON, FEHTTPJSON:
		var sb strings.Builder
		if err := jsonOf(root, logical, keyOf, &sb); err != nil {
			return nil, err
		}
		r.Text = sb.String()
		if h := fnv32(r.Text); h%2 == 1 {
			// insignificant white space (RFC 8259: space, tab, LF, CR) before, after and between the tokens
			r.Text = SpaceJSON(r.Text, h)
		}
		var spec any
		if err := json.Unmarshal([]byte(r.Text), &spec); err != nil {
			return nil, err
		}
		r.SpecIn = spec
		if fe == FEJSON {
			r.Data = zjson.Decode(strings.NewReader(r.Text))
		} else {
			// the request's method and the Content-Type's parameters vary with the document (no effect on the record)
			k := int(fnv32(r.Text))
			// ... and so does the way the body reaches net/http: readers of known length, a reader whose length the
			// client does not know, a chunked body as a server sees it
			var body io.Reader = strings.NewReader(r.Text)
			switch (k / 3) % 4 {
			case 1:
				body = bytes.NewBufferString(r.Text)
			case 2, 3:
				body = io.NopCloser(strings.NewReader(r.Text))
			}
			req, _ := http.NewRequest(bodyMethods[k%len(bodyMethods)], "http://example.test/x", body)
			if (k/3)%4 == 3 {
				req.ContentLength, req.TransferEncoding = -1, []string{"chunked"}
			}
			req.Header.Set("Content-Type", jsonCTypes[(k/7)%len(jsonCTypes)])
			r.Data, r.Req = zhttp.Request(req), req
		}
	case FEForm, FEQuery:
		vals := url.Values{}
		var order []string
		if err := flatPairs(root, logical, keyOf, vals, &order); err != nil {
			return nil, err
		}
		r.Text = vals.Encode()
		r.SpecIn = flatSpecIn(root, vals, keyOf, false)
		if fe == FEForm {
			k := int(fnv32(r.Text))
			// "the form (body plus query, as net/http defines it)": some of the parameters travel in the URL
			body, query := url.Values{}, url.Values{}
			for key, vs := range vals {
				if fnv32(key+"|"+r.Text)%3 == 0 {
					query[key] = vs
				} else {
					body[key] = vs
				}
			}
			target := "http://example.test/x"
			if len(query) > 0 {
				target += "?" + query.Encode()
			}
			req, _ := http.NewRequest(formMethods[k%len(formMethods)], target, strings.NewReader(body.Encode()))
			req.Header.Set("Content-Type", formCTypes[(k/7)%len(formCTypes)])
			// a middleware may have looked at the form before the handler does (net/http parses a request once)
			switch (k / 11) % 4 {
			case 1:
				_ = req.ParseForm()
			case 2:
				_ = req.FormValue("csrf")
			}
			r.Data, r.Req = zhttp.Request(req), req
		} else {
			req, _ := http.NewRequest("GET", "http://example.test/x?"+r.Text, nil)
			r.Data, r.Req = zhttp.Request(req), req
		}
	case FEEnv:
		vals := url.Values{}
		var order []string
		if err := flatPairs(root, logical, keyOf, vals, &order); err != nil {
			return nil, err
		}
		var set []string
		keys := make([]string, 0, len(vals))
		for k := range vals {
			keys = append(keys, k)
		}
		sort.Strings(keys)
		for _, k := range keys {
			if len(vals[k]) != 1 {
				return nil, fmt.Errorf("the environment carries no lists")
			}
			if strings.ContainsAny(k, "=\x00") || k == "" || strings.ContainsRune(vals[k][0], 0) {
				return nil, fmt.Errorf("not a valid environment assignment")
			}
		}
		envPads := []string{"", "", " ", "\t", "\u00a0", "\u3000", " \u2003", "\n", "\u0085", "\u2028"}
		for _, k := range keys {
			// "whitespace trimming for env": values arrive padded as shells, .env files and copy-paste leave them
			h := fnv32(k + "=" + vals[k][0])
			v := vals[k][0]
			if strings.TrimSpace(v) != "" {
				v = envPads[h%uint32(len(envPads))] + v + envPads[(h/16)%uint32(len(envPads))]
			}
			os.Setenv(k, v)
			set = append(set, k)
			r.Text += k + "=" + strconv.Quote(v) + " "
		}
		r.Cleanup = func() {
			for _, k := range set {
				os.Unsetenv(k)
			}
		}
		r.SpecIn = flatSpecIn(root, vals, keyOf, true)
		r.Data = zenv.NewDataProvider()
	default:
		return nil, fmt.Errorf("unknown front end %s", fe)
	}
	return r, nil
}

// SpaceJSON inserts insignificant white space around the tokens of a JSON text; which and where is a function of
// the text and k.
func SpaceJSON(text string, k uint32) string {
	ws := []string{"", " ", "\n", "\r\n", "\t", "\r", "  ", "\n\t ", ""}
	var sb strings.Builder
	pick := func(i int) string {
		k = k*1664525 + 1013904223 + uint32(i)
		return ws[(k>>16)%uint32(len(ws))]
	}
	sb.WriteString(pick(-1))
	inStr, esc := false, false
	for i := 0; i < len(text); i++ {
		c := text[i]
		if inStr {
			sb.WriteByte(c)
			switch {
			case esc:
				esc = false
			case c == '\\':
				esc = true
			case c == '"':
				inStr = false
				sb.WriteString(pick(i))
			}
			continue
		}
		switch c {
		case '"':
			inStr = true
			sb.WriteByte(c)
		case '{', '[', ',', ':':
			sb.WriteByte(c)
			sb.WriteString(pick(i))
		case '}', ']':
			sb.WriteString(pick(i))
			sb.WriteByte(c)
			sb.WriteString(pick(i + 1))
		default:
			sb.WriteByte(c)
		}
	}
	sb.WriteString(pick(len(text)))
	return sb.String()
}

// JSONOf renders a value as JSON text with the map front end's keys (zog tag / schema key).
func JSONOf(n *Node, v Val, sb *strings.Builder) error {
	return jsonOfLoose(v, sb)
}

// jsonOfLoose renders any plain Val as JSON, following the value rather than a schema.
func jsonOfLoose(v Val, sb *strings.Builder) error {
	switch v.T {
	case "nil", "":
		sb.WriteString("null")
	case "map":
		sb.WriteByte('{')
		for i, kv := range v.M {
			if i > 0 {
				sb.WriteByte(',')
			}
			kb, _ := json.Marshal(kv.K)
			sb.Write(kb)
			sb.WriteByte(':')
			if err := jsonOfLoose(kv.V, sb); err != nil {
				return err
			}
		}
		sb.WriteByte('}')
	case "list", "strlist", "intlist":
		sb.WriteByte('[')
		for i, e := range v.L {
			if i > 0 {
				sb.WriteByte(',')
			}
			if err := jsonOfLoose(e, sb); err != nil {
				return err
			}
		}
		sb.WriteByte(']')
	case "string":
		b, _ := json.Marshal(v.S)
		sb.Write(b)
	case "time":
		b, _ := json.Marshal(mustTime(v.S).Format(time.RFC3339Nano))
		sb.Write(b)
	case "int", "int32", "int64", "bool":
		sb.WriteString(v.S)
	case "float32", "float64":
		sb.WriteString(strconv.FormatFloat(parseFloat(v.S, 64), 'g', -1, 64))
	default:
		return fmt.Errorf("cannot render %s as JSON", v.T)
	}
	return nil
}
