package model

import (
	"fmt"
	"math"
	"reflect"
	"strconv"
	"strings"
	"time"

	"pgregory.net/rapid"
)

// GenCfg bounds and biases the schema / input generators.
type GenCfg struct {
	MaxDepth           int
	MaxFields          int
	MaxElems           int
	MaxTests           int
	Mode               string  // parse | validate
	PCatch             float64 // probability that a primitive gets Catch
	PDefault           float64
	PReq               float64
	PPost              float64 // probability of a "mutate" PostTransform on a node
	PAbsent            float64 // per node: rendered absent
	PJunk              float64 // per node (parse): rendered as an un-coercible value
	PVary              float64 // per leaf: a neighbour of the witness instead of the witness
	PTestSat           float64 // per test: parameter chosen so that the witness satisfies it
	POpts              float64 // per test: IssueCode / IssuePath / Message options
	PEmbed             float64 // per nested struct field: the destination embeds it (anonymous field)
	PPtrInput          float64 // per pointer-to-number/bool node: the input is a Go pointer of the destination's pointer type
	NoEmptyKeys        bool    // never the empty zog tag (a field at the empty key shares its issue path with its parent)
	PreferDeep         bool    // below the root mostly containers: deep nestings instead of bushy ones
	NoMsgOpts          bool    // never the Message option (every issue then reaches the execution's formatter)
	PZogTag            float64 // per field: zog tag
	NoCustom           bool
	NoPtr              bool
	NoFuncTests        bool
	LeafKinds          []string
	RootKinds          []string // allowed kinds at the root (nil = any)
	ManyFields         bool     // allow structs with more than 8 fields
	FullyPop           bool     // C13: no zero / white-space-only leaf, no empty slice, no nil pointer, nothing absent
	NoAltRepr          bool     // render leaves with their exact Go type only
	ForceCatch         bool     // make sure at least one primitive has Catch
	NoDataTests        bool     // struct / slice level tests are data-independent (pass / fail, no contains)
	PCoercer           float64  // per primitive/slice: WithCoercer(custom)
	PCatchVary         float64  // per catching leaf: its value is drawn around the witness whatever the case's perturbation scale (caught failures in otherwise clean cases)
	PComplex           float64  // per "func" test: written as a complex test (z.Test{Func} + ctx.AddIssue)
	PLayout            float64  // per time node: z.Time.Format(layout)
	GlobalKinds        []string // base kinds (string,int,float64,bool,time,slice) whose global coercer is overridden in this run
	TagKinds           []string // source tags (json, form, query, env) that struct fields may carry
	PSourceTag         float64  // per field and tag kind
	NoNestedSourceTags bool     // fields of nested structs carry no source tags (open finding: nested lookups ignore them)
	NoNestedStructs    bool     // no struct below the root struct (flat sources)
	LongKeys           bool     // some schema keys are 33..64 bytes long
	LogicalKeys        bool     // Render keys struct values by schema key (a logical record to be re-keyed per front end)
	PostBehaviours     []string // behaviours of generated PostTransforms (default: mutate)
	PPre               float64  // probability that a string leaf / string slice is wrapped in Preprocess (parse only)
	PLong              float64  // probability that a slice value gets 17..40 elements
	PVia               float64  // probability that a struct schema is assembled with Merge / Extend / Omit / Pick instead of literally
	PStructInput       float64  // parse: probability that a struct node's input is a Go struct value instead of a map (only when every lookup key is an exported identifier)
	PClean             float64  // probability that a case gets no input perturbation at all (PVary/PAbsent/PJunk scaled to 0)
	PLight             float64  // probability that the perturbation probabilities are scaled by 0.25
}

// The process runs in a local time zone that is not UTC, as most servers outside a CI container do: nothing in the
// documented coercions depends on the machine's zone (zone-less layouts are read as UTC, unix seconds are instants).
func init() { time.Local = time.FixedZone("HARNESS", 5*3600+1800) }

func DefaultCfg(mode string) GenCfg {
	return GenCfg{
		MaxDepth: 3, MaxFields: 4, MaxElems: 4, MaxTests: 3, Mode: mode,
		PCatch: 0.15, PDefault: 0.12, PReq: 0.45, PPost: 0.1, PAbsent: 0.12, PJunk: 0.05, PVary: 0.25,
		PTestSat: 0.8, POpts: 0.12, PZogTag: 0.25, PLong: 0.02, PVia: 0.12, PStructInput: 0.2, PEmbed: 0.15, PPtrInput: 0.08, PComplex: 0.15,
		LeafKinds: []string{KString, KString, KInt, KInt, KInt32, KInt64, KFloat32, KFloat64, KBool, KTime},
	}
}

// Gen holds per-case generator state: the witness value of every leaf.
type Gen struct {
	T      *rapid.T
	Cfg    GenCfg
	wit    map[*Node]Val
	seq    int
	scale  float64 // scaling of the input perturbation probabilities for this case
	sdepth int     // number of enclosing struct schemas of the node being generated
	envSeq int
}

func NewGen(t *rapid.T, cfg GenCfg) *Gen {
	return &Gen{T: t, Cfg: cfg, wit: map[*Node]Val{}, scale: 1}
}

func (g *Gen) label(s string) string { g.seq++; return s + strconv.Itoa(g.seq) }

// p is a fair biased coin built from single-bit draws (rapid's integer ranges
// favour small values, which would distort probabilities): the unit interval is
// bisected until the threshold 1-prob is decided. All-false bits (what rapid
// shrinks towards) give false.
func (g *Gen) p(prob float64, label string) bool {
	if prob <= 0 {
		return false
	}
	if prob >= 1 {
		return true
	}
	thr := 1 - prob
	lo, hi := 0.0, 1.0
	l := g.label(label)
	for i := 0; i < 10; i++ {
		mid := (lo + hi) / 2
		if rapid.Bool().Draw(g.T, l) {
			lo = mid
		} else {
			hi = mid
		}
		if hi <= thr {
			return false
		}
		if lo >= thr {
			return true
		}
	}
	return false
}

func (g *Gen) intn(lo, hi int, label string) int {
	return rapid.IntRange(lo, hi).Draw(g.T, g.label(label))
}

func pick[T any](g *Gen, xs []T, label string) T {
	return xs[g.intn(0, len(xs)-1, label)]
}

// ---- value pools ----

var plainStrings = []string{
	"a", "ab", "abc", "abcd", "hello", "Hello", "HELLO1", "zog", "x", "zz", "Az", "ab12", "123", "42", "7",
	"pass-word!", "p@ss", "a b", " lead", "trail ", "é", "日本", "naïve", "a.b", "user_name", "UPPER", "lower", "MiXeD9!",
	"true", "on", "0", "-5", "3.5", "~", "[x]", "{}", "q",
	"1.2345678e+07", "1e+21", "1.234e-05", "2.5", "-0.5", "1e-07", "123456.7", "false", "9007199254740993",
	"cost$5", "Tr0ub4dor$3x", "${HOME}", "$PATH", "100%", "a=b&c", "x;y", "a+b",
	`"q"`, `'q'`, `"`, `'`, `say "hi"`, `\n`, "#c", "[1]", "{a}", "a,b",
	"привет-мир-это-я-снова", "日本語のテキストですよろしくお願いします", "ünïcödé-strïng-that-ïs-löng-énöügh", "😀😀😀😀😀😀😀😀😀😀😀😀", // long multi-byte texts (bytes and characters differ widely)
}

var emailStrings = []string{"a@b.c", "user@example.com", "first.last@sub.example.org", "x+y@host-1.io", "A1@b2.c3"}
var nearEmailStrings = []string{"a@b", "@b.c", "a@", "a@-b.c", "a@b-.c", "a b@c.d", "a@b..c", "user@exa_mple.com", "a@@b.c"}
var uuidStrings = []string{"123e4567-e89b-12d3-a456-426614174000", "00000000-0000-0000-0000-000000000000", "FFFFFFFF-FFFF-4FFF-8FFF-FFFFFFFFFFFF", "abcdefab-cdef-abcd-efab-cdefabcdefab"}
var nearUUIDStrings = []string{"123e4567-e89b-12d3-a456-42661417400", "123e4567e89b12d3a456426614174000", "g23e4567-e89b-12d3-a456-426614174000", "123e4567-e89b-12d3-a456-4266141740000", "123e4567_e89b_12d3_a456_426614174000"}
var urlStrings = []string{"http://example.com", "https://a.b/c?d=e", "ftp://host:21/file", "x://h", "http://localhost:8080/a/b"}

func (g *Gen) stringWitness() string {
	switch c := g.intn(0, 19, "sw"); {
	case c < 12:
		return pick(g, plainStrings, "ps")
	case c < 14:
		return pick(g, emailStrings, "es")
	case c < 15:
		return pick(g, nearEmailStrings, "nes")
	case c < 17:
		return pick(g, uuidStrings, "us")
	case c < 18:
		return pick(g, nearUUIDStrings, "nus")
	default:
		return pick(g, urlStrings, "urls")
	}
}

var baseTime = time.Date(2024, 3, 10, 12, 0, 0, 0, time.UTC)
var zones = []*time.Location{time.UTC, time.FixedZone("", 5*3600+1800), time.FixedZone("", -8*3600)}

func (g *Gen) timeWitness() time.Time {
	t := baseTime.Add(time.Duration(g.intn(-3, 3, "th")) * time.Hour).Add(time.Duration(g.intn(0, 2, "ts")) * time.Second)
	return t.In(pick(g, zones, "tz"))
}

// witness draws the typed witness of a leaf kind.
func (g *Gen) witness(kind string) Val {
	switch kind {
	case KString:
		return Str(g.stringWitness())
	case KInt:
		return Int(g.numWitness())
	case KInt32:
		return Int32(int32(g.numWitness()))
	case KInt64:
		return Int64(int64(g.numWitness()))
	case KFloat32:
		return F32(float32(g.numWitness()) + float32(g.intn(0, 1, "fh"))*0.5)
	case KFloat64:
		return F64(float64(g.numWitness()) + float64(g.intn(0, 3, "fq"))*0.25)
	case KBool:
		return Bool(g.intn(0, 1, "bw") == 1)
	case KTime:
		return Time(g.timeWitness())
	}
	panic("witness " + kind)
}

func (g *Gen) numWitness() int {
	switch c := g.intn(0, 9, "nw"); {
	case c < 6:
		return g.intn(-5, 20, "n")
	case c < 8:
		return pick(g, []int{100, 255, 1000, -100, 65536, 1 << 20}, "nb")
	default:
		return g.intn(1, 3, "n1")
	}
}

// vary returns a typed neighbour of a typed leaf value (possibly the zero value).
func (g *Gen) vary(kind string, w Val) Val {
	switch kind {
	case KString:
		s := w.S
		switch g.intn(0, 7, "vs") {
		case 7:
			// the value as a pasted or line-read source carries it: padded with a line break, a tab or a blank
			pad := pick(g, []string{"\n", "\r\n", "\t", " "}, "padv")
			if g.p(0.5, "padfront") {
				return Str(pad + s)
			}
			return Str(s + pad)
		case 0:
			return Str(s + "x")
		case 1:
			if len(s) > 0 {
				return Str(s[:len(s)-1])
			}
			return Str("y")
		case 2:
			return Str(strings.ToUpper(s))
		case 3:
			return Str(s + "1!")
		case 4:
			if g.Cfg.FullyPop {
				return Str("k")
			}
			if g.intn(0, 2, "ws") == 0 {
				return Str(pick(g, []string{" ", "\t", " \n ", "\u00a0"}, "wsv")) // white space only: absent in Parse, present in Validate
			}
			return Str("")
		default:
			return Str(g.stringWitness())
		}
	case KBool:
		return Bool(w.S != "true")
	case KTime:
		t := mustTime(w.S)
		d := []time.Duration{-time.Hour, -time.Second, -time.Nanosecond, time.Nanosecond, time.Second, time.Hour}[g.intn(0, 5, "vt")]
		return Time(t.Add(d).In(pick(g, zones, "vtz")))
	case KFloat32, KFloat64:
		f := parseFloat(w.S, 64)
		if g.Cfg.Mode == "validate" && g.intn(0, 15, "vnan") == 0 {
			// non-finite values reach the tests unchanged in Validate (every ordered comparison with NaN is false);
			// an infinity is a correctly typed, non-zero value of either float type
			if g.Cfg.FullyPop {
				return Val{T: kind, S: pick(g, []string{"+Inf", "-Inf"}, "vinf")}
			}
			return Val{T: kind, S: pick(g, []string{"NaN", "+Inf", "-Inf"}, "vnf")}
		}
		d := []float64{-2, -1, -0.5, 0.5, 1, 2}[g.intn(0, 5, "vf")]
		if g.intn(0, 7, "vf0") == 0 && !g.Cfg.FullyPop {
			return Val{T: kind, S: "0"}
		}
		return Val{T: kind, S: fmtFloat(f+d, 32)}
	default:
		x := mustInt(w.S, 64)
		d := int64(g.intn(-2, 2, "vi"))
		if g.intn(0, 7, "vi0") == 0 && !g.Cfg.FullyPop {
			return Val{T: kind, S: "0"}
		}
		return Val{T: kind, S: strconv.FormatInt(x+d, 10)}
	}
}

func (g *Gen) fixFully(kind string, v Val) Val {
	if !g.Cfg.FullyPop {
		return v
	}
	switch kind {
	case KString:
		if strings.TrimSpace(v.S) == "" {
			return Str("k")
		}
	case KBool:
		return Bool(true)
	case KTime:
		return v
	default:
		if f, _ := strconv.ParseFloat(v.S, 64); f == 0 {
			return Val{T: kind, S: "1"}
		}
	}
	return v
}

// ---- schema generation ----

var fieldKeys = []string{"name", "age", "Email", "userId", "a", "b", "c", "tags", "addr", "x1", "Zip", "flag", "when", "n2", "list", "inner", "k9", "Q", "Title", "Count", "Items", "Owner"}

func (g *Gen) genOpts() Opts {
	var o Opts
	if !g.p(g.Cfg.POpts, "opt") {
		return o
	}
	switch g.intn(0, 3, "optk") {
	case 0:
		o.Code = pick(g, []string{"my_code", "custom", "min", "x"}, "oc")
	case 1:
		o.Path = pick(g, []string{"other.path", "alias", "root[0]"}, "op")
	case 2:
		if g.Cfg.NoMsgOpts {
			o.Path = pick(g, []string{"other.path", "alias", "root[0]"}, "op")
		} else {
			o.Msg = pick(g, []string{"bad value", "nope"}, "om")
		}
	default:
		o.Code = "cc"
		o.Path = "pp"
	}
	if g.intn(0, 3, "optp") == 0 {
		o.HasParams, o.Params = true, map[string]string{"k1": "v1", "min": "custom"}
		if g.p(0.25, "emptyparams") {
			o.Params = nil // z.Params(map[string]any{}): the test then carries no params at all
		}
	}
	return o
}

func (g *Gen) genLeafTests(n *Node, w Val) {
	k := g.intn(0, g.Cfg.MaxTests, "nt")
	for i := 0; i < k; i++ {
		sat := g.p(g.Cfg.PTestSat, "sat")
		ts, ok := g.genTest(n.Kind, w, sat, len(n.Tests))
		if ok && sat && !holdsOn(n.Kind, ts, w) {
			// construction check: a test meant to be satisfied by the witness must be
			switch {
			case ts.Name == "func":
				ts.Str = "pass"
			case n.Kind == KString && ts.Name != "min" && ts.Name != "max":
				ts.Not = !ts.Not
			default:
				ok = false
			}
		}
		if ok {
			n.Tests = append(n.Tests, ts)
		}
	}
}

// holdsOn evaluates a test (with its negation) on a typed witness.
func holdsOn(kind string, ts TestSpec, w Val) (ok bool) {
	defer func() {
		if recover() != nil {
			ok = false
		}
	}()
	r := EvalTest(kind, ts, reflect.ValueOf(w.Go()))
	return r != ts.Not
}

func (g *Gen) funcTest(preds []string, idx int) TestSpec {
	ts := TestSpec{Name: "func", Str: pick(g, preds, "fp")}
	ts.Opts = g.genOpts()
	if ts.Opts.Code == "" {
		ts.Opts.Code = fmt.Sprintf("f%d", idx)
	}
	ts.AsValue = g.p(0.3, "asvalue") // a reusable z.TestFunc value, copied and specialised by field assignment
	if g.p(g.Cfg.PComplex, "complex") {
		// the same predicate written as a complex test (z.Test{Func} reporting through ctx.AddIssue)
		ts.AsValue = false
		ts.Complex = pick(g, []string{"ctx", "ctx", "hand", "handpath", "ctx2"}, "cx")
		switch ts.Complex {
		case "ctx", "ctx2":
			ts.Opts.Path = "" // (what ctx.Issue() prefills is the point)
		case "hand":
			ts.Opts.Path = ""
		case "handpath":
			if ts.Opts.Path == "" {
				ts.Opts.Path = fmt.Sprintf("hand.p%d", idx)
			}
		}
		ts.Opts.MsgFunc, ts.Opts.MsgLast = "", false
	}
	return ts
}

func (g *Gen) genTest(kind string, w Val, sat bool, idx int) (TestSpec, bool) {
	var ts TestSpec
	switch {
	case kind == KString:
		s := w.S
		names := []string{"min", "max", "len", "email", "url", "uuid", "match", "prefix", "suffix", "contains", "upper", "digit", "special", "oneof", "func"}
		ts.Name = pick(g, names, "stn")
		if ts.Name == "func" {
			if g.Cfg.NoFuncTests {
				return ts, false
			}
			return g.funcTest([]string{"hashEven", "lenEven", "pass", "fail"}, idx), true
		}
		d := g.intn(0, 2, "d")
		switch ts.Name {
		case "min":
			if sat {
				ts.N = max(0, len(s)-d)
			} else {
				ts.N = len(s) + 1 + d
			}
		case "max":
			if sat {
				ts.N = len(s) + d
			} else {
				ts.N = max(0, len(s)-1-d)
			}
		case "len":
			if sat {
				ts.N = len(s)
			} else {
				ts.N = len(s) + 1 + d
			}
		case "match":
			ts.Str = pick(g, MatchMenuKeys, "re")
		case "prefix":
			if sat {
				ts.Str = s[:min(len(s), d)]
			} else {
				ts.Str = pick(g, []string{"zq", "A", "ab", "http"}, "pf")
			}
		case "suffix":
			if sat {
				ts.Str = s[len(s)-min(len(s), d):]
			} else {
				ts.Str = pick(g, []string{"zq", "z", "com", "!"}, "sf")
			}
		case "contains":
			if sat && len(s) > 0 {
				i := g.intn(0, len(s)-1, "ci")
				ts.Str = s[i:min(len(s), i+1+d)]
			} else {
				ts.Str = pick(g, []string{"zq", "b", "@", "1"}, "cf")
			}
			if g.intn(0, 7, "cempty") == 0 {
				ts.Str = "" // every string contains the empty string
			}
		case "oneof":
			ts.Args = []Val{Str("red"), Str("zq")}
			if g.p(0.15, "oneoption") {
				ts.Args = ts.Args[:1]
				if sat {
					ts.Args = nil
				}
			}
			if g.p(0.15, "longoneof") {
				for _, x := range []string{"zulu", "alpha", "mike", "bravo", "yankee", "delta", "echo", "x-ray", "golf", "hotel", "india", "whiskey", "kilo", "lima", "victor", "november", "oscar", "papa"} {
					ts.Args = append(ts.Args, Str(x))
				}
			}
			if sat {
				ts.Args = append(ts.Args, Str(s))
			}
		}
		switch ts.Name {
		case "min", "max":
		default:
			ts.Not = g.p(0.15, "not")
		}
		ts.Opts = g.genOpts()
		return ts, true
	case IsNumber(kind):
		names := []string{"eq", "lt", "lte", "gt", "gte", "oneof", "func"}
		ts.Name = pick(g, names, "ntn")
		if ts.Name == "func" {
			if g.Cfg.NoFuncTests {
				return ts, false
			}
			return g.funcTest([]string{"hashEven", "nonNeg", "pass", "fail"}, idx), true
		}
		f := parseFloat(w.S, 64)
		d := float64(g.intn(0, 2, "d"))
		arg := f
		switch ts.Name {
		case "eq":
			if !sat {
				arg = f + 1 + d
			}
		case "lt":
			if sat {
				arg = f + 1 + d
			} else {
				arg = f - d
			}
		case "lte":
			if sat {
				arg = f + d
			} else {
				arg = f - 1 - d
			}
		case "gt":
			if sat {
				arg = f - 1 - d
			} else {
				arg = f + d
			}
		case "gte":
			if sat {
				arg = f - d
			} else {
				arg = f + 1 + d
			}
		case "oneof":
			ts.Args = []Val{numVal(kind, 77), numVal(kind, -3)}
			if g.p(0.15, "oneoption") {
				ts.Args = ts.Args[:1] // a single option (two with the witness)
				if sat {
					ts.Args = nil
				}
			}
			if g.p(0.15, "longoneof") {
				// a long list in no particular order (port numbers, status codes ...)
				for _, x := range []float64{8080, 443, 80, 22, 9090, 21, 25, 3306, 5432, 6379, 27017, 8443, 53, 110, 143, 993, 995, 587, 11211} {
					ts.Args = append(ts.Args, numVal(kind, x))
				}
			}
			if sat {
				ts.Args = append(ts.Args, w)
			}
			ts.Opts = g.genOpts()
			return ts, true
		}
		a := numVal(kind, arg)
		ts.Arg = &a
		ts.Opts = g.genOpts()
		return ts, true
	case kind == KBool:
		ts.Name = pick(g, []string{"true", "false", "eq", "func"}, "btn")
		b := w.S == "true"
		switch ts.Name {
		case "func":
			if g.Cfg.NoFuncTests {
				return ts, false
			}
			return g.funcTest([]string{"hashEven", "pass", "fail"}, idx), true
		case "true":
			if sat != b {
				ts.Name = "false"
			}
		case "false":
			if sat == b {
				ts.Name = "true"
			}
		case "eq":
			a := Bool(b == sat)
			ts.Arg = &a
		}
		return ts, true
	case kind == KTime:
		ts.Name = pick(g, []string{"after", "before", "eq", "func"}, "ttn")
		if ts.Name == "func" {
			if g.Cfg.NoFuncTests {
				return ts, false
			}
			return g.funcTest([]string{"hashEven", "pass", "fail"}, idx), true
		}
		t := mustTime(w.S)
		d := []time.Duration{time.Nanosecond, time.Second, time.Hour}[g.intn(0, 2, "td")]
		var arg time.Time
		switch ts.Name {
		case "after":
			if sat {
				arg = t.Add(-d)
			} else {
				arg = t
				if g.intn(0, 1, "ta") == 1 {
					arg = t.Add(d)
				}
			}
		case "before":
			if sat {
				arg = t.Add(d)
			} else {
				arg = t
				if g.intn(0, 1, "tb") == 1 {
					arg = t.Add(-d)
				}
			}
		case "eq":
			arg = t
			if !sat {
				arg = t.Add(d)
			}
		}
		a := Time(arg.In(pick(g, zones, "tz")))
		ts.Arg = &a
		ts.Opts = g.genOpts()
		return ts, true
	}
	panic("genTest " + kind)
}

func numVal(kind string, f float64) Val {
	switch kind {
	case KFloat32:
		return F32(float32(f))
	case KFloat64:
		return F64(f)
	}
	return Val{T: kind, S: strconv.FormatInt(int64(math.Floor(f)), 10)}
}

func (g *Gen) post() PostSpec {
	if len(g.Cfg.PostBehaviours) == 0 {
		return PostSpec{Behaviour: "mutate"}
	}
	return PostSpec{Behaviour: pick(g, g.Cfg.PostBehaviours, "pbeh")}
}

func (g *Gen) genPosts(n *Node, label string) {
	for g.p(g.Cfg.PPost, label) && len(n.Posts) < 3 {
		n.Posts = append(n.Posts, g.post())
		if len(g.Cfg.PostBehaviours) == 0 {
			return
		}
		if n.Posts[len(n.Posts)-1].Behaviour == "ctxissue" {
			return // (it returns nil: what later transforms of the node do after it is not modelled)
		}
	}
}

func (g *Gen) genReq(n *Node) {
	n.Req = g.p(g.Cfg.PReq, "req")
	if n.Req && g.p(g.Cfg.POpts, "reqopt") {
		o := Opts{}
		if g.intn(0, 1, "rok") == 0 {
			o.Code = "req_code"
		} else {
			o.Path = "req.path"
		}
		n.ReqOpts = &o
	}
}

// GenNode generates a schema tree of the given remaining depth.
func (g *Gen) GenNode(depth int, root bool) *Node {
	if !root && g.Cfg.Mode == "validate" && g.p(g.Cfg.PPre, "pre") {
		// Validate: Preprocess[*string, string] in front of a string schema
		n := &Node{Kind: KPre, PreFn: pick(g, []string{"vtrim", "vmaybe", "verror", "vmaybe"}, "vprefn")}
		saved := g.Cfg
		g.Cfg.PPre, g.Cfg.PCoercer, g.Cfg.LeafKinds = 0, 0, []string{KString}
		n.Elem = g.GenNode(0, false)
		g.Cfg = saved
		return n
	}
	if !root && g.Cfg.Mode == "parse" && g.p(g.Cfg.PPre, "pre") {
		n := &Node{Kind: KPre, PreFn: pick(g, []string{"trim", "maybe", "split", "error", "any", "trim", "maybe", "ptr", "ptrnum"}, "prefn")}
		saved := g.Cfg
		g.Cfg.PPre, g.Cfg.PCoercer, g.Cfg.LeafKinds = 0, 0, []string{KString}
		if n.PreFn == "ptrnum" {
			g.Cfg.LeafKinds = []string{KInt}
		}
		switch {
		case n.PreFn == "split":
			n.Elem = &Node{Kind: KSlice, Elem: g.GenNode(0, false)}
			g.wit[n.Elem] = Int(2)
			g.genReq(n.Elem)
		case n.PreFn != "any" && g.p(0.25, "preptr"):
			n.Elem = &Node{Kind: KPtr, Elem: g.GenNode(0, false)} // the function's output goes to a pointer schema
			g.genReq(n.Elem)
		default:
			n.Elem = g.GenNode(0, false)
		}
		g.Cfg = saved
		return n
	}
	kind := g.pickKind(depth, root)
	n := &Node{Kind: kind}
	switch {
	case IsPrimitive(kind):
		w := g.fixFully(kind, g.witness(kind))
		g.wit[n] = w
		g.genReq(n)
		if g.p(g.Cfg.PDefault, "def") {
			d := w
			if g.p(0.5, "defv") {
				d = g.fixFully(kind, g.vary(kind, w))
			}
			n.Def = &d
		}
		if g.p(g.Cfg.PCatch, "catch") {
			c := g.fixFully(kind, g.vary(kind, w))
			n.Catch = &c
		}
		g.genLeafTests(n, w)
		g.genCoercer(n)
		g.genPosts(n, "post")
	case kind == KSlice:
		n.Elem = g.GenNode(depth-1, false)
		g.genReq(n)
		wl := g.intn(1, g.Cfg.MaxElems, "swl") // witness length
		g.wit[n] = Int(wl)
		k := g.intn(0, max(0, g.Cfg.MaxTests-1), "snt")
		for i := 0; i < k; i++ {
			switch name := pick(g, []string{"min", "max", "len", "contains", "func"}, "stn"); name {
			case "func":
				if !g.Cfg.NoFuncTests {
					ft := g.funcTest([]string{"hashEven", "lenEven", "pass", "fail"}, len(n.Tests))
					if g.p(g.Cfg.PTestSat, "ssat") {
						ft.Str = "pass"
					} else if g.Cfg.NoDataTests {
						ft.Str = "fail"
					}
					n.Tests = append(n.Tests, ft)
				}
			case "contains":
				leaf := n.Elem
				if leaf.Kind == KPtr && IsPrimitive(leaf.Elem.Kind) {
					leaf = leaf.Elem // Slice(Ptr(T)).Contains(&v): membership by deep equality
				}
				if IsPrimitive(leaf.Kind) && leaf.Kind != KTime && !g.Cfg.NoDataTests {
					a := g.wit[leaf]
					if g.p(0.3, "cvar") {
						a = g.vary(leaf.Kind, a)
					}
					n.Tests = append(n.Tests, TestSpec{Name: "contains", Arg: &a, Opts: g.genOpts()})
				} else if lt := typedListOf(leaf); lt != "" && !g.Cfg.NoDataTests {
					// a slice of slices: the needle is itself a slice (an element type Go cannot compare with ==)
					k := int(mustInt(g.wit[leaf].S, 64))
					a := Val{T: lt, L: make([]Val, k)}
					for j := range a.L {
						a.L[j] = g.wit[leaf.Elem]
					}
					if k > 0 && g.p(0.3, "cvar") {
						a.L[0] = g.vary(leaf.Elem.Kind, a.L[0])
					}
					n.Tests = append(n.Tests, TestSpec{Name: "contains", Arg: &a, Opts: g.genOpts()})
				}
			default:
				N := g.intn(0, 3, "sn")
				if g.p(g.Cfg.PTestSat, "slsat") {
					d := g.intn(0, 2, "sld")
					switch name {
					case "min":
						N = max(0, wl-d)
					case "max":
						N = wl + d
					case "len":
						N = wl
					}
				}
				n.Tests = append(n.Tests, TestSpec{Name: name, N: N, Opts: g.genOpts()})
			}
		}
		if IsPrimitive(n.Elem.Kind) && g.p(g.Cfg.PDefault, "sdef") {
			d := Val{T: "list"}
			for i, k := 0, g.intn(1, 3, "sdl"); i < k; i++ {
				d.L = append(d.L, g.leafValue(n.Elem))
			}
			if g.p(0.12, "sdempty") {
				d.L = nil // an empty (non-nil) Default, made with spare capacity
			}
			n.Def = &d
		} else if n.Elem.Kind == KSlice && IsPrimitive(n.Elem.Elem.Kind) && g.p(g.Cfg.PDefault, "sdef2") {
			// a nested default: [][]T
			d := Val{T: "list"}
			for i, k := 0, g.intn(1, 2, "sdl2"); i < k; i++ {
				inner := Val{T: "list"}
				for j, m := 0, g.intn(1, 3, "sdl3"); j < m; j++ {
					inner.L = append(inner.L, g.leafValue(n.Elem.Elem))
				}
				d.L = append(d.L, inner)
			}
			n.Def = &d
		}
		g.genCoercer(n)
		g.genPosts(n, "spost")
	case kind == KStruct:
		maxF := g.Cfg.MaxFields
		nf := g.intn(1, maxF, "nf")
		if g.Cfg.ManyFields && g.p(0.05, "many") {
			nf = g.intn(9, 12, "nfm")
		}
		if !root && g.p(0.04, "nofields") {
			nf = 0 // a struct schema without fields (what Pick / Omit may leave; a marker object)
		}
		used := map[string]bool{}
		emptyKeyUsed := false
		for len(n.Fields) < nf {
			key := pick(g, fieldKeys, "fk")
			gn := strings.ToLower(Field{Key: key}.GoName())
			if used[gn] {
				key = fmt.Sprintf("%s%d", key, len(n.Fields))
				gn = strings.ToLower(Field{Key: key}.GoName())
				if used[gn] {
					continue
				}
			}
			used[gn] = true
			if g.Cfg.LongKeys && g.p(0.08, "longkey") {
				key = key + strings.Repeat("Long", g.intn(8, 14, "lk"))
				used[strings.ToLower(Field{Key: key}.GoName())] = true
			}
			f := Field{Key: key}
			d := depth - 1
			if nf > 6 {
				d = 0
			}
			g.sdepth++
			f.Node = g.GenNode(d, false)
			g.sdepth--
			if f.Node.Kind == KStruct && g.p(g.Cfg.PEmbed, "embed") {
				f.Embed = true // the destination embeds the nested struct (an anonymous field is a field like any other)
			}
			if g.p(g.Cfg.PZogTag, "zt") {
				f.Tags = map[string]string{"zog": pick(g, []string{"zt_", "first-", "T"}, "ztp") + key}
				if g.p(0.12, "ztc") {
					f.Tags["zog"] += ",omitempty" // the whole tag value is the key (no encoding/json style options)
				}
				if !g.Cfg.LogicalKeys && !g.Cfg.NoEmptyKeys && !emptyKeyUsed && f.Node.Kind != KStruct && f.Node.Kind != KPtr && f.Node.Kind != KSlice && g.p(0.06, "ztempty") {
					f.Tags["zog"], emptyKeyUsed = "", true // the empty key (one leaf field per struct at most)
				}
			}
			if !(g.Cfg.NoNestedSourceTags && g.sdepth > 0) {
				for _, tk := range g.Cfg.TagKinds {
					if g.p(g.Cfg.PSourceTag, "st") {
						if f.Tags == nil {
							f.Tags = map[string]string{}
						}
						g.envSeq++
						switch tk {
						case "env":
							f.Tags[tk] = fmt.Sprintf("ZV_%s_%d", strings.ToUpper(key), g.envSeq)
						default:
							f.Tags[tk] = tk[:1] + "_" + key
							if g.p(0.08, "stc") {
								f.Tags[tk] += ",omitempty"
							}
							if (tk == "form" || tk == "query") && f.Node.Kind == KSlice && g.p(0.5, "brk") {
								f.Tags[tk] += "[]" // zhttp: a []-suffixed parameter is always a list
							}
						}
					}
				}
			}
			n.Fields = append(n.Fields, f)
		}
		if g.p(0.3, "extra") || nf == 0 {
			n.Extra = []string{"Xtra0"} // (a destination without any field would be a zero-size value: all its instances share one address)
		}
		if g.p(g.Cfg.PVia, "via") {
			n.Via = pick(g, []string{"merge", "extend", "omit", "pick", "merge"}, "viak")
		}
		if !g.Cfg.NoFuncTests {
			k := g.intn(0, 3, "stt") - 1
			if n.Via != "" && g.p(0.25, "manytests") {
				k = g.intn(3, 7, "sttm") // derived schemas with several struct-level tests (slices that have grown a few times)
			}
			for i := 0; i < k; i++ {
				ft := g.funcTest([]string{"hashEven", "pass", "fail", "pass"}, len(n.Tests))
				if g.p(g.Cfg.PTestSat, "stsat") {
					ft.Str = "pass"
				} else if g.Cfg.NoDataTests {
					ft.Str = "fail"
				}
				n.Tests = append(n.Tests, ft)
			}
		}
		g.genPosts(n, "stpost")
		if n.Via != "" && g.Cfg.PPost > 0 && g.p(0.2, "manyposts") {
			for want := g.intn(3, 6, "stpm"); len(n.Posts) < want; {
				n.Posts = append(n.Posts, g.post())
			}
		}
	case kind == KPtr:
		n.Elem = g.GenNode(depth-1, false)
		for n.Elem.Kind == KPtr && (n.Elem.Elem.Kind == KPtr || !g.p(0.5, "ptrptr")) {
			n.Elem = n.Elem.Elem // at most two pointer levels, and those only sometimes
		}
		g.genReq(n)
	case kind == KCustom:
		n.CustomT = pick(g, []string{"string", "int"}, "ct")
		n.CustomFn = pick(g, []string{"hashEven", "pass", "fail", "hashEven", "normalize"}, "cf")
		if n.CustomT == "string" {
			g.wit[n] = Str(g.stringWitness())
		} else {
			g.wit[n] = Int(g.numWitness())
		}
		if g.p(g.Cfg.PTestSat, "csat") && !EvalFunc(n.CustomFn, reflect.ValueOf(g.wit[n].Go())) {
			n.CustomFn = "pass"
		}
		o := g.genOpts()
		if o.Code == "" {
			o.Code = "custom_fail"
		}
		n.Tests = []TestSpec{{Name: "func", Str: n.CustomFn, Opts: o}}
	}
	return n
}

// TimeLayouts are the layouts used with z.Time.Format.
var TimeLayouts = []string{time.RFC3339, "2006-01-02", time.RFC1123Z, "02/01/2006 15:04", time.RFC3339Nano,
	"20060102", "2006", "150405", "20060102150405", time.Kitchen, "Jan _2 2006"} // digit-only layouts read like numbers

// BaseKind maps a node kind to the conf.Coercers entry it uses.
func BaseKind(kind string) string {
	switch kind {
	case KInt, KInt32, KInt64:
		return KInt
	case KFloat32, KFloat64:
		return KFloat64
	}
	return kind
}

func (g *Gen) genCoercer(n *Node) {
	switch {
	case g.p(g.Cfg.PCoercer, "coercer"):
		n.Coercer = "custom"
	case n.Kind == KTime && g.p(g.Cfg.PLayout, "layout"):
		n.Layout = pick(g, TimeLayouts, "lay")
	default:
		for _, k := range g.Cfg.GlobalKinds {
			if k == BaseKind(n.Kind) {
				n.Coercer = "global"
			}
		}
	}
	if n.Coercer != "" && n.Kind != KSlice {
		// the coerced value is a function of the raw input: tests tuned to the witness make no sense
		n.Tests = nil
		n.Def = nil
	}
}

func (g *Gen) pickKind(depth int, root bool) string {
	if root && len(g.Cfg.RootKinds) > 0 {
		return pick(g, g.Cfg.RootKinds, "rk")
	}
	if depth <= 0 {
		return pick(g, g.Cfg.LeafKinds, "lk")
	}
	// rapid favours small draws: the order of the menu is part of the weighting
	menu := []string{"leaf", KStruct, "leaf", KSlice, "leaf", KPtr, "leaf", KStruct, KSlice, KCustom, "leaf"}
	if root {
		menu = []string{KStruct, KSlice, KStruct, KPtr, "leaf", KStruct, KSlice, "leaf", KCustom, KStruct}
	}
	if g.Cfg.PreferDeep && !root && depth >= 2 {
		menu = []string{KStruct, KSlice, KStruct, KSlice, KPtr, "leaf", KStruct, KSlice} // mostly containers until the depth runs out
	}
	k := pick(g, menu, "kind")
	if g.Cfg.NoNestedStructs && g.sdepth > 0 && (k == KStruct || k == KPtr) {
		k = "leaf"
	}
	switch {
	case k == KPtr && g.Cfg.NoPtr:
		k = KStruct
	case k == KCustom && g.Cfg.NoCustom:
		k = "leaf"
	}
	if k == "leaf" {
		return pick(g, g.Cfg.LeafKinds, "lk")
	}
	return k
}

// ---- typed logical values ----

// leafValue draws a typed value for a primitive / custom node: its witness or a neighbour.
func (g *Gen) leafValue(n *Node) Val {
	w := g.wit[n]
	if n.Kind == KCustom {
		if g.p(g.Cfg.PVary*g.scale, "cv") {
			if n.CustomT == "string" {
				return Str(g.stringWitness())
			}
			return Int(g.numWitness())
		}
		return w
	}
	if g.p(g.Cfg.PVary*g.scale, "vary") || (n.Catch != nil && g.p(g.Cfg.PCatchVary, "catchvary")) {
		return g.fixFully(n.Kind, g.vary(n.Kind, w))
	}
	return w
}

// typedListOf names the typed list Val of a Slice(<string|int|float64|bool>) node, "" for anything else.
func typedListOf(n *Node) string {
	if n.Kind != KSlice || n.Elem == nil {
		return ""
	}
	return map[string]string{KString: "strlist", KInt: "intlist", KFloat64: "f64list", KBool: "boollist"}[n.Elem.Kind]
}

// GenTyped draws the typed logical value for a node. A nil Val means absent.
// Struct values are maps keyed by schema key.
func (g *Gen) GenTyped(n *Node) Val {
	if !g.Cfg.FullyPop && n.Kind != KStruct && g.p(g.Cfg.PAbsent*g.scale, "abs") {
		return Nil()
	}
	switch {
	case IsPrimitive(n.Kind) || n.Kind == KCustom:
		return g.leafValue(n)
	case n.Kind == KSlice:
		lo := 0
		if g.Cfg.FullyPop {
			lo = 1
		}
		k := int(mustInt(g.wit[n].S, 64))
		if g.p(g.Cfg.PVary*g.scale, "slv") {
			k = g.intn(lo, g.Cfg.MaxElems, "sl")
		}
		if g.p(g.Cfg.PLong, "long") {
			// beyond typical small-buffer / cache sizes and around powers of two
			k = pick(g, []int{17, 33, 40, 63, 64, 65, 66, 100, 127, 128, 129, 255, 256, 257, 600}, "sll")
		}
		out := Val{T: "list", L: make([]Val, 0, k)}
		for i := 0; i < k; i++ {
			out.L = append(out.L, g.GenTyped(n.Elem))
		}
		return out
	case n.Kind == KStruct:
		out := Val{T: "map"}
		for _, f := range n.Fields {
			out.M = append(out.M, KV{K: f.Key, V: g.GenTyped(f.Node)})
		}
		return out
	case n.Kind == KPtr:
		if n.Elem.Kind == KPtr && g.Cfg.Mode == "validate" && !g.Cfg.FullyPop && g.p(0.3, "ptrnil") {
			return Val{T: "ptr", L: []Val{Nil()}} // the outer pointer is set, the inner one is nil
		}
		return g.GenTyped(n.Elem)
	case n.Kind == KPre:
		if n.PreFn == "split" {
			var parts []string
			for i, k := 0, g.intn(1, 3, "spl"); i < k; i++ {
				parts = append(parts, g.leafValue(n.Elem.Elem).S)
			}
			return Str(strings.Join(parts, ","))
		}
		leaf := n.Elem
		if leaf.Kind == KPtr {
			leaf = leaf.Elem
		}
		v := g.leafValue(leaf)
		if n.PreFn == "ptrnum" {
			switch {
			case g.p(0.3, "pn0"):
				v = Str("0") // the function returns a pointer to 0: a present value
			case g.p(0.2, "pnnone"):
				v = Str("none")
			default:
				v = Str(" " + v.S)
			}
		}
		if n.PreFn == "trim" && g.p(0.5, "pad") {
			v = Str("  " + v.S + " ")
		}
		if (n.PreFn == "maybe" || n.PreFn == "vmaybe") && g.p(0.3, "bad") {
			v = Str(v.S + "bad")
		}
		if n.PreFn == "ptr" && g.p(0.4, "none") {
			v = Str(v.S + " none")
		}
		if n.PreFn == "vtrim" && g.p(0.5, "vpad") {
			v = Str(" " + v.S + "  ")
		}
		if g.Cfg.Mode == "validate" {
			return v
		}
		if g.p(0.1, "wrongtype") {
			return Int(7) // not the F the function expects
		}
		return v
	}
	panic("GenTyped " + n.Kind)
}

// ---- rendering a typed value as a Parse input ----

var junkByKind = map[string][]Val{
	KInt:     {Str("abc"), Str("12z"), Str("one"), List(), Map(KV{"k", Int(1)}), Time(baseTime)},
	KFloat64: {Str("abc"), Str("1.5z"), Str("--"), List(Int(1)), Map(), Time(baseTime)},
	KBool:    {Str("maybe"), Str("yes"), Int(7), Int(-1), Str("2"), List(), Time(baseTime)},
	KTime:    {Str("yesterday"), Str("2024-13-45"), Bool(true), List(), Map()},
	KStruct:  {Str("junk"), Int(5), List(Int(1)), Bool(true), F64(1.5)},
}

func junkFor(kind string) []Val {
	switch kind {
	case KInt, KInt32, KInt64:
		return junkByKind[KInt]
	case KFloat32, KFloat64:
		return junkByKind[KFloat64]
	}
	return junkByKind[kind]
}

// Render turns the typed value of a node into a Parse input, choosing among the
// documented equivalent representations, absent forms and un-coercible junk.
// pos: "root" | "field" | "elem". The second result is false when a struct
// field should be omitted from its map.
func (g *Gen) Render(n *Node, v Val, pos string) (Val, bool) {
	if v.IsNil() {
		forms := []string{"nil", "empty", "spaces", "tabs", "nbsp"}
		if pos == "field" {
			forms = append(forms, "missing", "missing", "missing")
		}
		switch pick(g, forms, "af") {
		case "missing":
			return Val{}, false
		case "nil":
			return Nil(), true
		case "empty":
			return Str(""), true
		case "spaces":
			return Str("  "), true
		case "tabs":
			return Str("\t\n "), true
		default:
			return Str("\u00a0"), true
		}
	}
	if n.Kind == KPre {
		return v, true
	}
	if n.Kind != KSlice && n.Kind != KString && n.Kind != KCustom && n.Kind != KPtr && g.p(g.Cfg.PJunk*g.scale, "junk") {
		if j := junkFor(n.Kind); len(j) > 0 {
			return pick(g, j, "jv"), true
		}
	}
	switch {
	case n.Kind == KPtr:
		if k := n.Elem.Kind; (IsNumber(k) || k == KBool) && !g.Cfg.LogicalKeys && !g.Cfg.NoAltRepr && g.p(g.Cfg.PPtrInput, "ptrin") {
			// the caller already holds a Go pointer of the destination's pointer type (*int, *bool ...)
			return Val{T: "ptr", L: []Val{v}}, true
		}
		return g.Render(n.Elem, v, pos)
	case n.Kind == KCustom:
		return v, true
	case n.Kind == KStruct:
		out := Val{T: "map"}
		for _, f := range n.Fields {
			fv, _ := v.Get(f.Key)
			rv, present := g.Render(f.Node, fv, "field")
			if !present && g.p(0.3, "decoy") {
				// keys that merely look like the field's key (other case) are unknown keys: ignored
				k := defaultKeyOf(f)
				if g.Cfg.LogicalKeys {
					k = f.Key
				}
				up, fl := strings.ToUpper(k), flipFirst(k)
				if up != k {
					out.M = append(out.M, KV{K: up, V: Str("decoy-upper")})
				}
				if fl != k && fl != up {
					out.M = append(out.M, KV{K: fl, V: Int(424242)})
				}
			}
			if present {
				k := defaultKeyOf(f)
				if g.Cfg.LogicalKeys {
					k = f.Key
				}
				out.M = append(out.M, KV{K: k, V: rv})
			}
		}
		// permute insertion order of the input map
		if len(out.M) > 1 {
			perm := rapid.Permutation(out.M).Draw(g.T, g.label("mperm"))
			out.M = perm
		}
		// a typed map (map[string]string / int / float64 / bool) when every value has that type
		if !g.Cfg.LogicalKeys && len(out.M) > 0 && g.p(g.Cfg.PStructInput, "tmap") {
			t := out.M[0].V.T
			same := true
			for _, kv := range out.M {
				same = same && kv.V.T == t
			}
			if same {
				generic := g.p(0.4, "gmap") // a user-defined map type / an element type without a provider of its own
				switch t {
				case "string":
					out.T = "mapss"
					if generic {
						out.T = "nmapss"
					}
				case "int":
					out.T = "mapsi"
					if generic {
						out.T = pick(g, []string{"nmapsi", "mapsi64"}, "gmk")
					}
				case "float64":
					out.T = "mapsf"
					if generic {
						out.T = "nmapsf"
					}
				case "bool":
					out.T = "mapsb"
					if generic {
						out.T = "nmapsb"
					}
				}
			} else if g.p(0.3, "nmap") {
				out.T = "nmap"
			}
			if out.T != "map" {
				return out, true
			}
		}
		// a Go struct as data source, when every key is usable as an exported field name
		if !g.Cfg.LogicalKeys && len(out.M) > 0 && g.p(g.Cfg.PStructInput, "sin") {
			ok := true
			seen := map[string]bool{}
			for _, kv := range out.M {
				if !isExportedIdent(kv.K) || seen[kv.K] {
					ok = false
				}
				seen[kv.K] = true
			}
			if ok {
				out.T = "struct"
			}
		}
		return out, true
	case n.Kind == KSlice:
		if len(v.L) == 1 && IsPrimitive(n.Elem.Kind) && g.p(0.2, "box") {
			// scalar in place of a one-element slice
			e, _ := g.Render(n.Elem, v.L[0], "elem")
			if !IsParseAbsent(e.Go()) && e.T != "list" && e.T != "map" {
				return e, true
			}
		}
		out := Val{T: "list"}
		allStr, allInt := len(v.L) > 0, len(v.L) > 0
		for _, e := range v.L {
			re, _ := g.Render(n.Elem, e, "elem")
			out.L = append(out.L, re)
			allStr = allStr && re.T == "string"
			allInt = allInt && re.T == "int"
		}
		if allStr && g.p(0.3, "tsl") {
			out.T = "strlist"
		} else if allInt && g.p(0.3, "til") {
			out.T = "intlist"
		}
		return out, true
	}
	if g.Cfg.NoAltRepr {
		return v, true
	}
	return g.altRepr(n, v), true
}

// flipFirst changes the case of the first letter.
func flipFirst(k string) string {
	if k == "" {
		return k
	}
	c := k[0]
	switch {
	case c >= 'a' && c <= 'z':
		return string(c-32) + k[1:]
	case c >= 'A' && c <= 'Z':
		return string(c+32) + k[1:]
	}
	return k
}

func isExportedIdent(s string) bool {
	if s == "" || s[0] < 'A' || s[0] > 'Z' {
		return false
	}
	for i := 1; i < len(s); i++ {
		c := s[i]
		if !(c == '_' || (c >= '0' && c <= '9') || (c >= 'a' && c <= 'z') || (c >= 'A' && c <= 'Z')) {
			return false
		}
	}
	return true
}

// altRepr picks one of the documented equivalent representations of a typed leaf.
func (g *Gen) altRepr(n *Node, v Val) Val {
	if n.Coercer != "" {
		// any present scalar is acceptable input for a custom coercer
		return pick(g, []Val{v, Str("raw"), Int(12345), F64(2.5), Bool(true), Str("x y"), Int64(-9), Str("COERCE-ERR")}, "craw")
	}
	c := g.intn(0, 9, "repr")
	if c < 5 && n.Layout == "" {
		return v
	}
	switch n.Kind {
	case KString:
		s := v.S
		if i, err := strconv.Atoi(s); err == nil && strconv.Itoa(i) == s {
			return Int(i)
		}
		if s == "true" || s == "false" {
			return Bool(s == "true")
		}
		// a float whose %v rendering is exactly this string (documented: any value -> its %v string)
		if f, err := strconv.ParseFloat(s, 64); err == nil && fmt.Sprintf("%v", f) == s {
			return F64(f)
		}
		return v
	case KInt, KInt32, KInt64:
		x := mustInt(v.S, 64)
		switch c {
		case 5:
			if g.p(0.3, "zeropad") { // decimal strings as forms, CSV exports and fixed-width fields write them: 007, -012
				digits, sign := strings.TrimPrefix(v.S, "-"), ""
				if x < 0 {
					sign = "-"
				}
				return Str(sign + strings.Repeat("0", g.intn(1, 3, "zeros")) + digits)
			}
			return Str(v.S)
		case 6:
			return Int(int(x))
		case 7:
			return Int64(x)
		case 8:
			if x >= math.MinInt32 && x <= math.MaxInt32 {
				return Int32(int32(x))
			}
			return Int(int(x))
		default:
			if x > -(1<<53) && x < 1<<53 {
				f := float64(x)
				if g.p(0.5, "frac") { // documented truncation toward zero
					if x >= 0 {
						f += 0.75
					} else {
						f -= 0.75
					}
				}
				return F64(f)
			}
			return Int(int(x))
		}
	case KFloat32, KFloat64:
		f := parseFloat(v.S, 64)
		switch c {
		case 5, 6:
			s := strconv.FormatFloat(f, 'f', -1, 64)
			if isPlainDecimalFloat(s) {
				if g.p(0.3, "zeropad") {
					if strings.HasPrefix(s, "-") {
						return Str("-" + strings.Repeat("0", g.intn(1, 3, "zeros")) + s[1:])
					}
					return Str(strings.Repeat("0", g.intn(1, 3, "zeros")) + s)
				}
				return Str(s)
			}
			return F64(f)
		case 7:
			if f == math.Trunc(f) && math.Abs(f) < 1<<40 {
				return Int(int(f))
			}
			return F64(f)
		case 8:
			if float64(float32(f)) == f {
				return F32(float32(f))
			}
			return F64(f)
		default:
			return F64(f)
		}
	case KBool:
		b := v.S == "true"
		switch c {
		case 5:
			return Str(strconv.FormatBool(b))
		case 6:
			if b {
				return Str("on")
			}
			return Str("off")
		case 7:
			if b {
				return Int(1)
			}
			return Int(0)
		case 8:
			if b {
				return Str(pick(g, []string{"1", "t", "T", "TRUE", "True"}, "bt"))
			}
			return Str(pick(g, []string{"0", "f", "F", "FALSE", "False"}, "bf"))
		default:
			return v
		}
	case KTime:
		t := mustTime(v.S)
		if n.Layout != "" {
			if c <= 7 {
				return Str(t.Format(n.Layout))
			}
			return v
		}
		switch c {
		case 5, 6:
			return Str(t.Format(time.RFC3339Nano))
		case 7:
			if t.Nanosecond() == 0 {
				return Int(int(t.Unix()))
			}
			return v
		case 8:
			if t.Nanosecond() == 0 {
				return Int64(t.Unix())
			}
			return v
		default:
			return v
		}
	}
	return v
}

// Case is one generated (schema, input, execution) triple of the generic properties.
type Case struct {
	Root  *Node `json:"root"`
	Input Val   `json:"input"` // parse: the input value; validate: typed value filled into the destination
	Exec  Exec  `json:"exec"`
}

// NormalisePosts cuts a node's PostTransforms after one that reports through the context and returns nil (what later
// transforms of the node do after it is not modelled).
func NormalisePosts(root *Node) {
	root.Walk(func(n *Node) {
		for i, p := range n.Posts {
			if p.Behaviour == "ctxissue" {
				n.Posts = n.Posts[:i+1]
				break
			}
		}
	})
}

// GenCase draws a whole case.
func GenCase(t *rapid.T, cfg GenCfg) Case {
	g := NewGen(t, cfg)
	root := g.GenNode(cfg.MaxDepth, true)
	NormalisePosts(root)
	if cfg.ForceCatch {
		var prims []*Node
		has := false
		root.Walk(func(n *Node) {
			if IsPrimitive(n.Kind) {
				prims = append(prims, n)
				has = has || n.Catch != nil
			}
		})
		if !has && len(prims) > 0 {
			n := pick(g, prims, "fc")
			c := g.fixFully(n.Kind, g.vary(n.Kind, g.wit[n]))
			n.Catch = &c
		}
	}
	root.Number()
	switch {
	case g.p(cfg.PClean, "clean"):
		g.scale = 0
	case g.p(cfg.PLight, "light"):
		g.scale = 0.25
	}
	typed := g.GenTyped(root)
	c := Case{Root: root, Exec: Exec{Mode: cfg.Mode}}
	if cfg.Mode == "parse" {
		in, _ := g.Render(root, typed, "root")
		c.Input = in
	} else {
		c.Input = typed
	}
	return c
}

// Exported entry points for property-specific generators.

func (g *Gen) Witness(kind string) Val           { return g.fixFully(kind, g.witness(kind)) }
func (g *Gen) Vary(kind string, w Val) Val       { return g.vary(kind, w) }
func (g *Gen) P(prob float64, label string) bool { return g.p(prob, label) }
func (g *Gen) Intn(lo, hi int, label string) int { return g.intn(lo, hi, label) }
func (g *Gen) SetWitness(n *Node, w Val)         { g.wit[n] = w }
func (g *Gen) AltRepr(n *Node, v Val) Val        { return g.altRepr(n, v) }
func (g *Gen) GenTest(kind string, w Val, sat bool, idx int) (TestSpec, bool) {
	return g.genTest(kind, w, sat, idx)
}

func (g *Gen) CopyWitness(from, to *Node) {
	if w, ok := g.wit[from]; ok {
		g.wit[to] = w
	}
}

// GenChain builds a schema that is one long chain of containers (single-field structs, slices, pointers) of the given
// depth ending in a required string leaf with a Min test, and a typed value for it whose leaves are valid or not.
// Issue paths of such schemas have depth+ segments.
func GenChain(rt *rapid.T, depth int) (*Node, Val) {
	leaf := &Node{Kind: KString, Req: true, Tests: []TestSpec{{Name: "min", N: 3}}}
	n := leaf
	keys := []string{"a", "b", "items", "name", "c", "next", "list", "d"}
	type step struct {
		kind string
		key  string
	}
	var steps []step
	for i := 0; i < depth; i++ {
		k := rapid.SampledFrom([]string{KStruct, KStruct, KSlice, KPtr}).Draw(rt, "ck")
		if k == KPtr && n.Kind == KPtr {
			k = KStruct
		}
		st := step{kind: k}
		switch k {
		case KStruct:
			st.key = keys[rapid.IntRange(0, len(keys)-1).Draw(rt, "ckey")]
			n = &Node{Kind: KStruct, Fields: []Field{{Key: st.key, Node: n}}}
		case KSlice:
			n = &Node{Kind: KSlice, Elem: n}
		case KPtr:
			n = &Node{Kind: KPtr, Elem: n, Req: true}
		}
		steps = append(steps, st)
	}
	if n.Kind != KStruct {
		n = &Node{Kind: KStruct, Fields: []Field{{Key: "root", Node: n}}}
		steps = append(steps, step{kind: KStruct, key: "root"})
	}
	// value, built from the leaf outwards
	var build func(i int) Val
	build = func(i int) Val {
		if i < 0 {
			return Str(rapid.SampledFrom([]string{"ab", "abcd", "x", "valid"}).Draw(rt, "cleaf"))
		}
		switch steps[i].kind {
		case KStruct:
			return Map(KV{K: steps[i].key, V: build(i - 1)})
		case KSlice:
			k := rapid.IntRange(1, 3).Draw(rt, "clen")
			l := Val{T: "list"}
			for j := 0; j < k; j++ {
				l.L = append(l.L, build(i-1))
			}
			return l
		}
		return build(i - 1) // pointer: the value itself
	}
	n.Number()
	return n, build(len(steps) - 1)
}
