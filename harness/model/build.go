package model

import (
	"errors"
	"fmt"
	zp "github.com/Oudwins/zog/internals"
	"github.com/Oudwins/zog/zconst"
	"reflect"
	"regexp"
	"runtime/debug"
	"sort"
	"strconv"
	"strings"
	"time"

	z "github.com/Oudwins/zog"
	"github.com/Oudwins/zog/conf"
)

// Event is one entry of the per-execution recorder log.
type Event struct {
	Kind    string            `json:"kind"` // test | post | custom | pre | coerce | issue
	Node    int               `json:"node"`
	Idx     int               `json:"idx"`
	ArgType string            `json:"argType,omitempty"`
	ArgNil  bool              `json:"argNil,omitempty"`
	ArgPtr  uintptr           `json:"-"`
	ArgVal  string            `json:"argVal,omitempty"` // canonical JSON of the (dereferenced) argument
	Ctx     map[string]string `json:"ctx,omitempty"`    // ctx.Get(k) for every watched key, "<nil>" when nil
	Code    string            `json:"code,omitempty"`   // issue events
	Path    string            `json:"path,omitempty"`
	Ret     string            `json:"ret,omitempty"` // what the callback returned (pass/fail/error text)
	Issue   *z.ZogIssue       `json:"-"`
}

// Env carries the recorder log and knobs shared by all callbacks of one built schema.
type Env struct {
	// ParamMaps: the params maps handed to z.Params, by content (tests with equal params share one map)
	ParamMaps map[string]map[string]any
	// Sentinels: the issue values of "sentinel" complex tests, by code (one object per built schema)
	Sentinels map[string]*z.ZogIssue
	Log       []Event
	// Silent: callbacks do not record (the Env is then safe to share between goroutines).
	Silent    bool
	WatchKeys []string
	// PostErrs holds the error values returned by "error"/"issue" PostTransforms, by node id and index.
	PostErrs map[[2]int]error
	shared   map[int]sharedSchema
	// Owned lists the reference-typed values handed to the schema at construction
	// (slice defaults, OneOf lists, Contains arguments): the schema owns them from then on.
	Owned []reflect.Value
}

func (e *Env) Reset() { e.Log = e.Log[:0] }

func (e *Env) ctxVals(ctx z.Ctx) map[string]string {
	if len(e.WatchKeys) == 0 || ctx == nil {
		return nil
	}
	m := make(map[string]string, len(e.WatchKeys))
	for _, k := range e.WatchKeys {
		v := ctx.Get(k)
		if v == nil {
			m[k] = "<nil>"
		} else {
			m[k] = fmt.Sprintf("%v", v)
		}
	}
	return m
}

// describeArg fills the argument part of an event without ever panicking.
func describeArg(ev *Event, val any) (deref reflect.Value) {
	ev.ArgType = fmt.Sprintf("%T", val)
	rv := reflect.ValueOf(val)
	if !rv.IsValid() {
		ev.ArgNil = true
		return rv
	}
	if rv.Kind() == reflect.Pointer {
		if rv.IsNil() {
			ev.ArgNil = true
			return reflect.Value{}
		}
		ev.ArgPtr = rv.Pointer()
		rv = rv.Elem()
	}
	ev.ArgVal = CanonJSON(rv)
	return rv
}

func (e *Env) testFunc(n *Node, idx int, pred string) z.BoolTFunc {
	return func(val any, ctx z.Ctx) bool {
		if e.Silent {
			rv := reflect.ValueOf(val)
			if rv.IsValid() && rv.Kind() == reflect.Pointer && !rv.IsNil() {
				rv = rv.Elem()
			}
			return !rv.IsValid() || safeEvalFunc(pred, rv)
		}
		ev := Event{Kind: "test", Node: n.ID, Idx: idx, Ctx: e.ctxVals(ctx)}
		rv := describeArg(&ev, val)
		ok := true
		if rv.IsValid() {
			ok = safeEvalFunc(pred, rv)
		}
		ev.Ret = fmt.Sprint(ok)
		e.Log = append(e.Log, ev)
		return ok
	}
}

func safeEvalFunc(pred string, rv reflect.Value) (ok bool) {
	defer func() {
		if recover() != nil {
			ok = true
		}
	}()
	return EvalFunc(pred, rv)
}

// PostError is the plain error returned by "error" PostTransforms.
type PostError struct {
	Node, Idx int
}

func (p *PostError) Error() string { return fmt.Sprintf("post-error n%d#%d", p.Node, p.Idx) }

func (e *Env) postFunc(n *Node, idx int, ps PostSpec) z.PostTransform {
	return func(ptr any, ctx z.Ctx) error {
		if e.Silent {
			if rv := reflect.ValueOf(ptr); ps.Behaviour == "mutate" && rv.IsValid() && rv.Kind() == reflect.Pointer && !rv.IsNil() {
				ApplyPostMutation(rv.Elem())
			}
			if ps.Behaviour == "error" {
				return &PostError{n.ID, idx}
			}
			if ps.Behaviour == "ctxissue" {
				ctx.AddIssue(ctx.Issue().SetCode("post_ctx").SetMessage(fmt.Sprintf("post-ctx n%d#%d", n.ID, idx)))
			}
			return nil
		}
		ev := Event{Kind: "post", Node: n.ID, Idx: idx, Ctx: e.ctxVals(ctx)}
		rv := describeArg(&ev, ptr)
		var ret error
		switch ps.Behaviour {
		case "mutate":
			if rv.IsValid() && rv.CanSet() {
				ApplyPostMutation(rv)
			}
		case "error":
			ret = &PostError{n.ID, idx}
		case "issue":
			iss := &z.ZogIssue{Code: "post_issue", Message: fmt.Sprintf("post-issue n%d#%d", n.ID, idx), Path: "post.path"}
			ret = iss
		case "ctxissue":
			// reports through the context instead of returning an error: ctx.Issue() is prefilled with this node's path
			ctx.AddIssue(ctx.Issue().SetCode("post_ctx").SetMessage(fmt.Sprintf("post-ctx n%d#%d", n.ID, idx)))
		case "issue-nopath":
			// a hand-built issue that names no path: reported as it is (the map files it under $root)
			ret = &z.ZogIssue{Code: "post_issue", Message: fmt.Sprintf("post-issue n%d#%d", n.ID, idx)}
		case "wrapped":
			// an ordinary error that happens to carry an issue in its chain (a callback that re-validated part of
			// its value with another schema and wrapped what it got): it is the returned error that is reported
			inner := &z.ZogIssue{Code: "inner_issue", Message: fmt.Sprintf("inner issue of n%d#%d", n.ID, idx), Path: "inner.path"}
			if idx%2 == 0 {
				ret = fmt.Errorf("post n%d#%d failed: %w", n.ID, idx, inner)
			} else {
				ret = errors.Join(&PostError{n.ID, idx}, inner)
			}
		}
		if ret != nil {
			ev.Ret = ret.Error()
			if e.PostErrs == nil {
				e.PostErrs = map[[2]int]error{}
			}
			e.PostErrs[[2]int{n.ID, idx}] = ret
		}
		e.Log = append(e.Log, ev)
		return ret
	}
}

// ApplyPostMutation is the deterministic own-destination mutation of a
// "mutate" PostTransform; the specification applies the same function.
func ApplyPostMutation(rv reflect.Value) {
	switch rv.Kind() {
	case reflect.String:
		rv.SetString(rv.String() + "!")
	case reflect.Int, reflect.Int32, reflect.Int64:
		// avoid overflow traps: wrap-free increment
		if x := rv.Int(); x < 1<<30 && x > -(1<<30) {
			rv.SetInt(x + 1)
		}
	case reflect.Float32, reflect.Float64:
		rv.SetFloat(-rv.Float())
	case reflect.Bool:
		rv.SetBool(!rv.Bool())
	case reflect.Slice:
		if rv.Len() > 0 {
			// reverse in place
			for i, j := 0, rv.Len()-1; i < j; i, j = i+1, j-1 {
				a, b := rv.Index(i).Interface(), rv.Index(j).Interface()
				rv.Index(i).Set(reflect.ValueOf(b))
				rv.Index(j).Set(reflect.ValueOf(a))
			}
		}
	case reflect.Struct:
		if t, ok := rv.Interface().(time.Time); ok {
			rv.Set(reflect.ValueOf(t.Add(time.Hour)))
			return
		}
		// the string field with the smallest name (independent of field declaration order)
		best := -1
		for i := 0; i < rv.NumField(); i++ {
			if f := rv.Field(i); f.Kind() == reflect.String && f.CanSet() {
				if best < 0 || rv.Type().Field(i).Name < rv.Type().Field(best).Name {
					best = i
				}
			}
		}
		if best >= 0 {
			rv.Field(best).SetString(rv.Field(best).String() + "~")
		}
	}
}

// CustomCoerce is the deterministic function computed by "custom" coercers.
func CustomCoerce(kind string, data any) any {
	s := fmt.Sprintf("%v", data)
	switch kind {
	case KString:
		return "C<" + s + ">"
	case KInt:
		return len(s)
	case KInt32:
		return int32(len(s))
	case KInt64:
		return int64(len(s))
	case KFloat32:
		return float32(len(s)) + 0.5
	case KFloat64:
		return float64(len(s)) + 0.5
	case KBool:
		return len(s)%2 == 0
	case KTime:
		return time.Unix(int64(len(s)), 0).UTC()
	case KSlice:
		if rv := reflect.ValueOf(data); rv.IsValid() && rv.Kind() == reflect.Slice {
			return data
		}
		return []any{data, data}
	}
	panic("model: CustomCoerce " + kind)
}

// GlobalCoercer is the function installed into conf.Coercers.<base kind> for
// global-override runs.
func GlobalCoercer(base string) conf.CoercerFunc {
	return func(data any) (any, error) {
		if s, ok := data.(string); ok && s == "COERCE-ERR" {
			return nil, errors.New("global coercer refused")
		}
		return CustomCoerce(base, data), nil
	}
}

func (e *Env) coercer(n *Node) conf.CoercerFunc {
	kind := n.Kind
	return func(data any) (any, error) {
		if !e.Silent {
			ev := Event{Kind: "coerce", Node: n.ID}
			describeArg(&ev, data)
			e.Log = append(e.Log, ev)
		}
		if s, ok := data.(string); ok && s == "COERCE-ERR" {
			// "errors returned by you can be the ZogIssue interface or an error": the refusal takes one of several shapes
			switch n.ID % 4 {
			case 1:
				return nil, &z.ZogIssue{Message: "custom coercer refused"}
			case 2:
				return nil, fmt.Errorf("custom coercer: %w", &z.ZogIssue{Code: "refused", Message: "custom coercer refused"})
			case 3:
				return nil, errors.Join(errors.New("custom coercer refused"), errors.New("twice"))
			}
			return nil, errors.New("custom coercer refused")
		}
		return CustomCoerce(kind, data), nil
	}
}

// complexTest builds a "func" test the way the documentation writes complex tests: a z.Test whose Func reports through
// ctx.AddIssue. The predicate is evaluated (and logged) exactly like a bool test's.
func (e *Env) complexTest(n *Node, idx int, ts TestSpec) z.Test {
	pred := e.testFunc(n, idx, ts.Str)
	o := ts.Opts
	return z.Test{Func: func(val any, ctx z.Ctx) {
		if pred(val, ctx) {
			return
		}
		var is *z.ZogIssue
		switch ts.Complex {
		case "ctx2":
			// a superRefine-style test that reports every rule the value breaks: two issues from one call
			first := ctx.Issue().SetCode(o.Code)
			if o.Msg != "" {
				first.SetMessage(o.Msg)
			}
			ctx.AddIssue(first)
			is = ctx.Issue().SetCode(o.Code + "_b")
		case "ctx":
			is = ctx.Issue().SetCode(o.Code)
		case "hand":
			is = &z.ZogIssue{Code: o.Code}
		case "sentinel":
			// one issue value kept by the user next to the schema (like a sentinel error) and reported wherever the
			// predicate fails; it carries its message (nothing has to fill it in)
			if e.Sentinels == nil {
				e.Sentinels = map[string]*z.ZogIssue{}
			}
			if e.Sentinels[o.Code] == nil {
				e.Sentinels[o.Code] = &z.ZogIssue{Code: o.Code, Message: "sentinel issue " + o.Code}
			}
			ctx.AddIssue(e.Sentinels[o.Code])
			return
		case "handpath":
			is = &z.ZogIssue{Code: o.Code, Path: o.Path, Value: val}
		default:
			panic("model: complex test flavour " + ts.Complex)
		}
		if o.Msg != "" {
			is.SetMessage(o.Msg)
		}
		if o.HasParams {
			m := map[string]any{}
			for k, v := range o.Params {
				m[k] = v
			}
			is.SetParams(m)
		}
		ctx.AddIssue(is)
	}}
}

// funcTestValue builds a "func" test the way the documentation's reusable tests are used: one z.TestFunc value made
// without options, copied, and the copy specialised by assigning its fields before it is handed to schema.Test.
func (e *Env) funcTestValue(n *Node, idx int, ts TestSpec) z.Test {
	if ts.Complex != "" {
		return e.complexTest(n, idx, ts)
	}
	shared := z.TestFunc("", e.testFunc(n, idx, ts.Str))
	t := shared
	o := ts.Opts
	if o.Code != "" {
		t.IssueCode = o.Code
	}
	if o.Path != "" {
		t.IssuePath = o.Path
	}
	if o.HasParams {
		m := map[string]any{}
		for k, v := range o.Params {
			m[k] = v
		}
		t.Params = e.sharedParams(m)
	}
	if o.Msg != "" {
		msg := o.Msg
		t.IssueFmtFunc = func(is *z.ZogIssue, ctx z.Ctx) { is.SetMessage(msg) }
	}
	if o.MsgFunc == NoopMsgFunc && !(o.Msg != "" && o.MsgLast) {
		t.IssueFmtFunc = func(is *z.ZogIssue, ctx z.Ctx) {}
	} else if o.MsgFunc != "" && !(o.Msg != "" && o.MsgLast) {
		marker := o.MsgFunc
		t.IssueFmtFunc = func(is *z.ZogIssue, ctx z.Ctx) { is.SetMessage(marker) }
	}
	return t
}

func (e *Env) opts(o Opts) []z.TestOption {
	var out []z.TestOption
	if o.Msg != "" && !o.MsgLast {
		out = append(out, z.Message(o.Msg))
	}
	if o.MsgFunc == NoopMsgFunc {
		// a MessageFunc that decides, this time, to leave the message to the formatters below it
		out = append(out, z.MessageFunc(func(is *z.ZogIssue, ctx z.Ctx) {}))
	} else if o.MsgFunc == DescribeMsgFunc {
		// a MessageFunc that writes the message from what the issue says (code, type, offending value, params)
		out = append(out, z.MessageFunc(func(is *z.ZogIssue, ctx z.Ctx) { is.SetMessage("seen:" + DescribeIssue(is)) }))
	} else if o.MsgFunc != "" {
		marker := o.MsgFunc
		out = append(out, z.MessageFunc(func(is *z.ZogIssue, ctx z.Ctx) { is.SetMessage(marker) }))
	}
	if o.Msg != "" && o.MsgLast {
		out = append(out, z.Message(o.Msg))
	}
	if o.Code != "" {
		out = append(out, z.IssueCode(o.Code))
	}
	if o.Path != "" {
		out = append(out, z.IssuePath(o.Path))
	}
	if o.HasParams {
		m := map[string]any{}
		for k, v := range o.Params {
			m[k] = v
		}
		out = append(out, z.Params(e.sharedParams(m)))
	}
	return out
}

// sharedParams: tests declared with the same params share ONE map value, as a schema file that keeps its params in a
// package-level variable does (nothing in the library may write to it).
func (e *Env) sharedParams(m map[string]any) map[string]any {
	keys := make([]string, 0, len(m))
	for k := range m {
		keys = append(keys, k)
	}
	sort.Strings(keys)
	key := ""
	for _, k := range keys {
		key += fmt.Sprintf("%s=%v;", k, m[k])
	}
	if e.ParamMaps == nil {
		e.ParamMaps = map[string]map[string]any{}
	}
	if shared, ok := e.ParamMaps[key]; ok {
		return shared
	}
	e.ParamMaps[key] = own(e, m)
	return m
}

func (e *Env) schemaOpts(n *Node) []z.SchemaOption {
	var out []z.SchemaOption
	if n.Coercer == "custom" {
		out = append(out, z.WithCoercer(e.coercer(n)))
	}
	if n.Kind == KTime && n.Layout != "" {
		if len(n.Layout)%2 == 0 {
			out = append(out, z.Time.Format(n.Layout))
		} else {
			layout := n.Layout // the same thing spelled with the function form of the option
			out = append(out, z.Time.FormatFunc(func(data string) (time.Time, error) { return time.Parse(layout, data) }))
		}
	}
	return out
}

func convTo[T any](v Val) T {
	var zero T
	return reflect.ValueOf(v.Go()).Convert(reflect.TypeOf(zero)).Interface().(T)
}

func convList[T any](vs []Val) []T {
	out := make([]T, len(vs))
	for i, v := range vs {
		out[i] = convTo[T](v)
	}
	return out
}

func own[T any](e *Env, v T) T {
	e.Owned = append(e.Owned, reflect.ValueOf(v))
	return v
}

type number interface {
	int | int32 | int64 | float32 | float64
}

func buildNumber[T number](e *Env, n *Node, s *z.NumberSchema[T]) *z.NumberSchema[T] {
	if n.Req {
		s.Required(e.reqOpts(n)...)
	}
	if n.Def != nil {
		s.Default(convTo[T](*n.Def))
		if !n.Req && n.ID%2 == 1 {
			s.Optional() // spelled out after the Default (what a node is without Required; the Default stays)
		}
	}
	if n.Catch != nil {
		s.Catch(convTo[T](*n.Catch))
	}
	for i, ts := range n.Tests {
		o := e.opts(ts.Opts)
		switch ts.Name {
		case "eq":
			s.EQ(convTo[T](*ts.Arg), o...)
		case "lt":
			s.LT(convTo[T](*ts.Arg), o...)
		case "lte":
			s.LTE(convTo[T](*ts.Arg), o...)
		case "gt":
			s.GT(convTo[T](*ts.Arg), o...)
		case "gte":
			s.GTE(convTo[T](*ts.Arg), o...)
		case "oneof":
			s.OneOf(own(e, convList[T](ts.Args)), o...)
		case "func":
			if ts.AsValue || ts.Complex != "" {
				s.Test(e.funcTestValue(n, i, ts))
			} else {
				s.TestFunc(e.testFunc(n, i, ts.Str), o...)
			}
		default:
			panic("model: number test " + ts.Name)
		}
	}
	for i, ps := range n.Posts {
		s.PostTransform(e.postFunc(n, i, ps))
	}
	return s
}

func (e *Env) reqOpts(n *Node) []z.TestOption {
	if n.ReqOpts == nil {
		return nil
	}
	return e.opts(*n.ReqOpts)
}

var regexCache = map[string]*regexp.Regexp{}

func regex(s string) *regexp.Regexp {
	if r, ok := regexCache[s]; ok {
		return r
	}
	r := regexp.MustCompile(s)
	regexCache[s] = r
	return r
}

type sharedSchema struct {
	s z.ZogSchema
	t reflect.Type
}

// rotatedStruct returns the struct type with its fields rotated by k: the same
// field names and types in another declaration order (a different Go type
// that one schema object may legitimately be used with).
func rotatedStruct(t reflect.Type, k int) reflect.Type { return RetaggedStruct(t, nil, k) }

// RetaggedStruct rebuilds a struct type with the struct tags of node n's fields
// (n == nil: tags kept) and its fields rotated by k.
func RetaggedStruct(t reflect.Type, n *Node, k int) reflect.Type {
	if t.Kind() != reflect.Struct || t == reflect.TypeOf(time.Time{}) {
		return t
	}
	nf := t.NumField()
	if nf == 0 || (n == nil && (nf < 2 || k%nf == 0)) {
		return t
	}
	tags := map[string]reflect.StructTag{}
	if n != nil {
		for _, f := range n.Fields {
			tags[f.GoName()] = reflect.StructTag(TagString(f.Tags))
		}
	}
	fields := make([]reflect.StructField, nf)
	for i := 0; i < nf; i++ {
		f := t.Field((i + k) % nf)
		tag := f.Tag
		if nt, ok := tags[f.Name]; ok {
			tag = nt
		}
		fields[i] = reflect.StructField{Name: f.Name, Type: f.Type, Tag: tag, Anonymous: f.Anonymous}
	}
	return reflect.StructOf(fields)
}

// Build turns a node into a zog schema and the Go type of its destination.
// Nodes carrying the same non-zero ShareID yield the same schema object.
func Build(n *Node, e *Env) (z.ZogSchema, reflect.Type) {
	if n.ShareID != 0 {
		if e.shared == nil {
			e.shared = map[int]sharedSchema{}
		}
		if sh, ok := e.shared[n.ShareID]; ok {
			// the schema object is reused; the destination type at this use carries this use's tags and field order
			return sh.s, RetaggedStruct(sh.t, n, n.TypeRot)
		}
		s, t := build(n, e)
		e.shared[n.ShareID] = sharedSchema{s, t}
		return s, rotatedStruct(t, n.TypeRot)
	}
	return build(n, e)
}

func build(n *Node, e *Env) (z.ZogSchema, reflect.Type) {
	switch n.Kind {
	case KString:
		s := z.String(e.schemaOpts(n)...)
		if n.Req {
			s.Required(e.reqOpts(n)...)
		}
		if n.Def != nil {
			s.Default(n.Def.S)
			if !n.Req && n.ID%2 == 1 {
				s.Optional() // spelled out after the Default (what a node is without Required; the Default stays)
			}
		}
		if n.Catch != nil {
			s.Catch(n.Catch.S)
		}
		for i, ts := range n.Tests {
			o := e.opts(ts.Opts)
			if ts.Name == "func" {
				if ts.AsValue || ts.Complex != "" {
					s.Test(e.funcTestValue(n, i, ts))
				} else {
					s.TestFunc(e.testFunc(n, i, ts.Str), o...)
				}
				continue
			}
			if ts.Name == "min" {
				s.Min(ts.N, o...)
				continue
			}
			if ts.Name == "max" {
				s.Max(ts.N, o...)
				continue
			}
			var t z.NotStringSchema[string] = s
			if ts.Not {
				t = s.Not()
			}
			switch ts.Name {
			case "len":
				t.Len(ts.N, o...)
			case "email":
				t.Email(o...)
			case "url":
				t.URL(o...)
			case "uuid":
				t.UUID(o...)
			case "match":
				t.Match(regex(ts.Str), o...)
			case "prefix":
				t.HasPrefix(ts.Str, o...)
			case "suffix":
				t.HasSuffix(ts.Str, o...)
			case "contains":
				t.Contains(ts.Str, o...)
			case "upper":
				t.ContainsUpper(o...)
			case "digit":
				t.ContainsDigit(o...)
			case "special":
				t.ContainsSpecial(o...)
			case "oneof":
				t.OneOf(own(e, convList[string](ts.Args)), o...)
			default:
				panic("model: string test " + ts.Name)
			}
		}
		for i, ps := range n.Posts {
			s.PostTransform(e.postFunc(n, i, ps))
		}
		return s, reflect.TypeOf("")
	case KInt:
		return buildNumber(e, n, z.Int(e.schemaOpts(n)...)), reflect.TypeOf(int(0))
	case KInt32:
		return buildNumber(e, n, z.Int32(e.schemaOpts(n)...)), reflect.TypeOf(int32(0))
	case KInt64:
		return buildNumber(e, n, z.Int64(e.schemaOpts(n)...)), reflect.TypeOf(int64(0))
	case KFloat32:
		return buildNumber(e, n, z.Float32(e.schemaOpts(n)...)), reflect.TypeOf(float32(0))
	case KFloat64:
		return buildNumber(e, n, z.Float64(e.schemaOpts(n)...)), reflect.TypeOf(float64(0))
	case KBool:
		s := z.Bool(e.schemaOpts(n)...)
		if n.Req {
			s.Required(e.reqOpts(n)...)
		}
		if n.Def != nil {
			s.Default(n.Def.S == "true")
			if !n.Req && n.ID%2 == 1 {
				s.Optional() // spelled out after the Default (what a node is without Required; the Default stays)
			}
		}
		if n.Catch != nil {
			s.Catch(n.Catch.S == "true")
		}
		for i, ts := range n.Tests {
			switch ts.Name {
			case "true":
				s.True()
			case "false":
				s.False()
			case "eq":
				s.EQ(ts.Arg.S == "true")
			case "func":
				if ts.AsValue || ts.Complex != "" {
					s.Test(e.funcTestValue(n, i, ts))
				} else {
					s.TestFunc(e.testFunc(n, i, ts.Str), e.opts(ts.Opts)...)
				}
			default:
				panic("model: bool test " + ts.Name)
			}
		}
		for i, ps := range n.Posts {
			s.PostTransform(e.postFunc(n, i, ps))
		}
		return s, reflect.TypeOf(false)
	case KTime:
		s := z.Time(e.schemaOpts(n)...)
		if n.Req {
			s.Required(e.reqOpts(n)...)
		}
		if n.Def != nil {
			s.Default(mustTime(n.Def.S))
			if !n.Req && n.ID%2 == 1 {
				s.Optional() // spelled out after the Default (what a node is without Required; the Default stays)
			}
		}
		if n.Catch != nil {
			s.Catch(mustTime(n.Catch.S))
		}
		for i, ts := range n.Tests {
			o := e.opts(ts.Opts)
			switch ts.Name {
			case "after":
				s.After(mustTime(ts.Arg.S), o...)
			case "before":
				s.Before(mustTime(ts.Arg.S), o...)
			case "eq":
				s.EQ(mustTime(ts.Arg.S), o...)
			case "func":
				if ts.AsValue || ts.Complex != "" {
					s.Test(e.funcTestValue(n, i, ts))
				} else {
					s.TestFunc(e.testFunc(n, i, ts.Str), o...)
				}
			default:
				panic("model: time test " + ts.Name)
			}
		}
		for i, ps := range n.Posts {
			s.PostTransform(e.postFunc(n, i, ps))
		}
		return s, reflect.TypeOf(time.Time{})
	case KSlice:
		es, et := Build(n.Elem, e)
		st := reflect.SliceOf(et)
		s := z.Slice(es, e.schemaOpts(n)...)
		if n.Req {
			s.Required(e.reqOpts(n)...)
		}
		if n.Def != nil {
			s.Default(own(e, TypedSlice(st, *n.Def)))
			if !n.Req && n.ID%2 == 1 {
				s.Optional() // spelled out after the Default (what a node is without Required; the Default stays)
			}
		}
		for i, ts := range n.Tests {
			o := e.opts(ts.Opts)
			switch ts.Name {
			case "min":
				s.Min(ts.N, o...)
			case "max":
				s.Max(ts.N, o...)
			case "len":
				s.Len(ts.N, o...)
			case "contains":
				if et.Kind() == reflect.Pointer {
					// the needle is a pointer of its own: membership is by deep equality, not pointer identity
					needle := reflect.New(et.Elem())
					needle.Elem().Set(reflect.ValueOf(ts.Arg.Go()).Convert(et.Elem()))
					s.Contains(needle.Interface(), o...)
				} else if et.Kind() == reflect.Slice {
					s.Contains(own(e, TypedSlice(et, *ts.Arg)), o...)
				} else {
					s.Contains(reflect.ValueOf(ts.Arg.Go()).Convert(et).Interface(), o...)
				}
			case "func":
				if ts.AsValue || ts.Complex != "" {
					s.Test(e.funcTestValue(n, i, ts))
				} else {
					s.TestFunc(e.testFunc(n, i, ts.Str), o...)
				}
			default:
				panic("model: slice test " + ts.Name)
			}
		}
		for i, ps := range n.Posts {
			s.PostTransform(e.postFunc(n, i, ps))
		}
		return s, st
	case KStruct:
		sm := z.Schema{}
		fields := make([]reflect.StructField, 0, len(n.Fields)+len(n.Extra))
		for _, f := range n.Fields {
			fs, ft := Build(f.Node, e)
			sm[f.Key] = fs
			fields = append(fields, reflect.StructField{Name: f.GoName(), Type: ft, Tag: reflect.StructTag(TagString(f.Tags)),
				Anonymous: f.Embed && f.Node.Kind == KStruct})
		}
		for _, x := range n.Extra {
			fields = append(fields, reflect.StructField{Name: x, Type: reflect.TypeOf("")})
		}
		// addTests / addPosts attach the tests / PostTransforms with indices in [from, to) in declaration order
		addTests := func(s *z.StructSchema, from, to int) {
			for i := from; i < to && i < len(n.Tests); i++ {
				ts := n.Tests[i]
				if ts.Name != "func" {
					panic("model: struct test " + ts.Name)
				}
				if ts.AsValue || ts.Complex != "" {
					s.Test(e.funcTestValue(n, i, ts))
				} else {
					s.TestFunc(e.testFunc(n, i, ts.Str), e.opts(ts.Opts)...)
				}
			}
		}
		addPosts := func(s *z.StructSchema, from, to int) {
			for i := from; i < to && i < len(n.Posts); i++ {
				s.PostTransform(e.postFunc(n, i, n.Posts[i]))
			}
		}
		// chunks splits k items into three contiguous runs, filled from the LAST operand backwards (a single
		// item sits on the third operand); concatenation in operand order restores the declaration order
		chunks := func(k int) [4]int {
			c2 := (k + 2) / 3
			c1 := (k - c2 + 1) / 2
			c0 := k - c2 - c1
			return [4]int{0, c0, c0 + c1, k}
		}
		keys := make([]string, 0, len(n.Fields))
		for _, f := range n.Fields {
			keys = append(keys, f.Key)
		}
		var s *z.StructSchema
		// Derived schemas get their LAST test / PostTransform only after the derivation ("later additions"), and
		// afterwards siblings are derived from the same operands and given failing tests and transforms of their own,
		// as are the operands themselves: none of that may reach the schema under test.
		nt, np := len(n.Tests), len(n.Posts)
		heldT, heldP := 0, 0
		if n.Via != "" && nt > 0 && len(keys)%2 == 0 {
			heldT = 1
		}
		if n.Via != "" && np > 0 && len(keys)%2 == 1 {
			heldP = 1
		}
		later := func(s *z.StructSchema) {
			addTests(s, nt-heldT, nt)
			addPosts(s, np-heldP, np)
		}
		noise := func(x *z.StructSchema) {
			x.TestFunc(func(any, z.Ctx) bool { return false }, z.IssueCode("sibling_noise"), z.IssuePath("sibling.noise"))
			x.PostTransform(func(any, z.Ctx) error { return errors.New("sibling noise") })
		}
		switch n.Via {
		case "merge":
			// three operands: fields dealt round-robin; tests and PostTransforms sit on the receiver (even number of
			// fields) or are dealt over the operands (Merge keeps and concatenates them)
			parts := []z.Schema{{}, {}, {}}
			for i, k := range keys {
				parts[i%3][k] = sm[k]
			}
			ops := make([]*z.StructSchema, 3)
			tc, pc := chunks(nt-heldT), chunks(np-heldP)
			if len(keys)%2 == 0 {
				tc, pc = [4]int{0, nt - heldT, nt - heldT, nt - heldT}, [4]int{0, np - heldP, np - heldP, np - heldP}
			}
			for j := range ops {
				ops[j] = z.Struct(parts[j])
				addTests(ops[j], tc[j], tc[j+1])
				addPosts(ops[j], pc[j], pc[j+1])
			}
			s = ops[0].Merge(ops[1], ops[2])
			later(s)
			for _, op := range ops {
				noise(op.Merge(z.Struct(z.Schema{}).TestFunc(func(any, z.Ctx) bool { return false }, z.IssueCode("sibling_noise"))))
				noise(op)
			}
		case "extend":
			half := len(keys) / 2
			a, b := z.Schema{}, z.Schema{}
			for i, k := range keys {
				if i < half {
					a[k] = sm[k]
				} else {
					b[k] = sm[k]
				}
			}
			base := z.Struct(a)
			addTests(base, 0, nt-heldT)
			addPosts(base, 0, np-heldP)
			s = base.Extend(b)
			later(s)
			noise(base.Extend(z.Schema{}))
			noise(base)
		case "omit", "pick":
			// a superset with two decoy fields (no destination field is needed for keys that are removed again)
			super := z.Schema{"zzDecoy1": z.String().Required(), "zzDecoy2": z.Int().Required()}
			for k, v := range sm {
				super[k] = v
			}
			base := z.Struct(super)
			addTests(base, 0, nt-heldT)
			addPosts(base, 0, np-heldP)
			if n.Via == "omit" {
				s = base.Omit("zzDecoy1", map[string]bool{"zzDecoy2": true})
			} else {
				args := make([]any, 0, len(keys))
				for _, k := range keys {
					args = append(args, k)
				}
				s = base.Pick(args...)
			}
			later(s)
			noise(base.Omit("zzDecoy1"))
			noise(base)
		default:
			s = z.Struct(sm)
			addTests(s, 0, len(n.Tests))
			addPosts(s, 0, len(n.Posts))
		}
		return s, reflect.StructOf(fields)
	case KPtr:
		es, et := Build(n.Elem, e)
		s := z.Ptr(es)
		if n.Req {
			s.NotNil(e.reqOpts(n)...)
		}
		return s, reflect.PointerTo(et)
	case KCustom:
		o := e.opts(Opts{Code: "custom_fail"})
		if len(n.Tests) == 1 {
			o = e.opts(n.Tests[0].Opts)
		}
		switch n.CustomT {
		case "string":
			return z.CustomFunc[string](func(p *string, ctx z.Ctx) bool { return e.customCall(n, p, ctx) }, o...), reflect.TypeOf("")
		case "int":
			return z.CustomFunc[int](func(p *int, ctx z.Ctx) bool { return e.customCall(n, p, ctx) }, o...), reflect.TypeOf(0)
		}
		panic("model: custom type " + n.CustomT)
	case KPre:
		es, et := Build(n.Elem, e)
		switch n.PreFn {
		case "trim":
			return z.Preprocess(func(data string, ctx z.Ctx) (string, error) {
				e.preCall(n, data, ctx)
				return strings.TrimSpace(data), nil
			}, es), et
		case "split":
			return z.Preprocess(func(data string, ctx z.Ctx) ([]string, error) {
				e.preCall(n, data, ctx)
				return strings.Split(data, ","), nil
			}, es), et
		case "error":
			return z.Preprocess(func(data string, ctx z.Ctx) (string, error) {
				e.preCall(n, data, ctx)
				return "", errors.New("preprocess refused")
			}, es), et
		case "maybe": // fails for inputs containing "bad", otherwise the identity
			return z.Preprocess(func(data string, ctx z.Ctx) (string, error) {
				e.preCall(n, data, ctx)
				if strings.Contains(data, "bad") {
					return "", errors.New("preprocess refused")
				}
				return data, nil
			}, es), et
		case "ptr": // a function with a pointer result: nil ("nothing there") for inputs containing "none", else the trimmed input
			return z.Preprocess(func(data string, ctx z.Ctx) (*string, error) {
				e.preCall(n, data, ctx)
				if strings.Contains(data, "none") {
					return nil, nil
				}
				t := strings.TrimSpace(data)
				return &t, nil
			}, es), et
		case "ptrnum": // pointer result of another type: the parsed integer (a pointer to 0 is a present 0), nil when there is none
			return z.Preprocess(func(data string, ctx z.Ctx) (*int, error) {
				e.preCall(n, data, ctx)
				v, err := strconv.Atoi(strings.TrimSpace(data))
				if err != nil {
					return nil, nil
				}
				return &v, nil
			}, es), et
		// Validate-mode wrappers: the function receives a pointer to the node's value (F = *T) and its output is written back
		case "vtrim":
			return z.Preprocess(func(data *string, ctx z.Ctx) (string, error) {
				e.preCall(n, data, ctx)
				return strings.TrimSpace(*data), nil
			}, es), et
		case "verror":
			return z.Preprocess(func(data *string, ctx z.Ctx) (string, error) {
				e.preCall(n, data, ctx)
				return "", errors.New("preprocess refused")
			}, es), et
		case "vmaybe":
			return z.Preprocess(func(data *string, ctx z.Ctx) (string, error) {
				e.preCall(n, data, ctx)
				if strings.Contains(*data, "bad") {
					return "", errors.New("preprocess refused")
				}
				return *data + "+", nil
			}, es), et
		case "any":
			return z.Preprocess(func(data any, ctx z.Ctx) (any, error) {
				e.preCall(n, data, ctx)
				return data, nil
			}, es), et
		}
		panic("model: preprocess fn " + n.PreFn)
	}
	panic("model: unknown kind " + n.Kind)
}

func (e *Env) customCall(n *Node, p any, ctx z.Ctx) bool {
	if e.Silent {
		rv := reflect.ValueOf(p)
		if !rv.IsValid() || rv.Kind() != reflect.Pointer || rv.IsNil() {
			return true
		}
		if n.CustomFn == "normalize" {
			ApplyCustomNorm(rv.Elem())
		}
		return safeEvalFunc(n.CustomFn, rv.Elem())
	}
	ev := Event{Kind: "custom", Node: n.ID, Ctx: e.ctxVals(ctx)}
	rv := describeArg(&ev, p)
	ok := true
	if rv.IsValid() {
		if n.CustomFn == "normalize" {
			// a custom function that canonicalises the value it validates (it holds a pointer to the destination)
			ApplyCustomNorm(rv)
		}
		ok = safeEvalFunc(n.CustomFn, rv)
	}
	ev.Ret = fmt.Sprint(ok)
	e.Log = append(e.Log, ev)
	return ok
}

func (e *Env) preCall(n *Node, data any, ctx z.Ctx) {
	if e.Silent {
		return
	}
	ev := Event{Kind: "pre", Node: n.ID, Ctx: e.ctxVals(ctx)}
	describeArg(&ev, data)
	e.Log = append(e.Log, ev)
}

// TagString renders struct tags in a fixed order.
func TagString(tags map[string]string) string {
	var sb strings.Builder
	for _, k := range SortedKeys(tags) {
		if sb.Len() > 0 {
			sb.WriteByte(' ')
		}
		fmt.Fprintf(&sb, "%s:%q", k, tags[k])
	}
	return sb.String()
}

// TypedSlice builds a slice value of type st from a list Val whose leaves are
// convertible to the element type.
func TypedSlice(st reflect.Type, v Val) any {
	out := reflect.MakeSlice(st, len(v.L), len(v.L)+emptyCap(len(v.L)))
	for i, e := range v.L {
		SetFromVal(out.Index(i), e)
	}
	return out.Interface()
}

// emptyCap: empty typed slices are made with spare capacity (make([]T, 0, 3), buf[:0]): an empty slice may still own memory.
func emptyCap(n int) int {
	if n == 0 {
		return 3
	}
	return 0
}

// SetFromVal stores a typed Val into an addressable destination value,
// following the destination's shape (struct fields by Go name or schema key,
// slices by index, pointers allocated). A nil Val leaves the zero value.
func SetFromVal(dst reflect.Value, v Val) {
	if v.IsNil() {
		dst.Set(reflect.Zero(dst.Type()))
		return
	}
	switch dst.Kind() {
	case reflect.Pointer:
		p := reflect.New(dst.Type().Elem())
		if v.T == "ptr" && len(v.L) == 1 {
			SetFromVal(p.Elem(), v.L[0]) // an explicit pointer level: ptr(nil) is a non-nil pointer to a nil pointer / zero value
		} else {
			SetFromVal(p.Elem(), v)
		}
		dst.Set(p)
	case reflect.Slice:
		s := reflect.MakeSlice(dst.Type(), len(v.L), len(v.L)+emptyCap(len(v.L)))
		for i, e := range v.L {
			SetFromVal(s.Index(i), e)
		}
		dst.Set(s)
	case reflect.Struct:
		if _, ok := dst.Interface().(time.Time); ok {
			dst.Set(reflect.ValueOf(v.Go()))
			return
		}
		for _, kv := range v.M {
			name := Field{Key: kv.K}.GoName()
			f := dst.FieldByName(name)
			if f.IsValid() {
				SetFromVal(f, kv.V)
			}
		}
	default:
		dst.Set(reflect.ValueOf(v.Go()).Convert(dst.Type()))
	}
}

// Exec describes how a built schema is executed.
type Exec struct {
	Mode      string `json:"mode"`                // parse | validate
	CtxVals   []KV   `json:"ctxVals,omitempty"`   // WithCtxValue(k, v)
	Formatter string `json:"formatter,omitempty"` // WithIssueFormatter stamping this marker
	LogIssues bool   `json:"logIssues,omitempty"` // WithIssueFormatter that logs issue creation and delegates to the global formatter
	// Cold: the execution starts with empty object pools (internals.ClearPools()), as the first one of a process or
	// the first after a garbage collection does: every pooled helper object is fresh, nothing has grown yet
	Cold bool `json:"cold,omitempty"`
}

// Iss is a normalised issue.
type Iss struct {
	Path  string `json:"path"`
	Code  string `json:"code"`
	Dtype string `json:"dtype"`
	Msg   string `json:"msg,omitempty"`
}

func (i Iss) Key() string { return i.Path + "\x00" + i.Code + "\x00" + i.Dtype + "\x00" + i.Msg }

// Result of one execution.
type Result struct {
	IsMap bool
	List  z.ZogIssueList
	Map   z.ZogIssueMap
	Dest  reflect.Value // pointer to the destination
	Panic any
	Stack string
	Log   []Event
}

// All returns every issue (for maps: all keys except $first), unordered.
func (r *Result) All() []*z.ZogIssue {
	if !r.IsMap {
		return r.List
	}
	var out []*z.ZogIssue
	for _, k := range SortedKeys(r.Map) {
		if k == "$first" {
			continue
		}
		out = append(out, r.Map[k]...)
	}
	return out
}

func (r *Result) NoIssues() bool {
	if r.IsMap {
		return r.Map == nil
	}
	return r.List == nil
}

// Norm returns the sorted multiset of (path, code, dtype[, message]).
func (r *Result) Norm(withMsg bool) []Iss {
	var out []Iss
	for _, is := range r.All() {
		if is == nil {
			out = append(out, Iss{Path: "<nil issue>"})
			continue
		}
		x := Iss{Path: is.Path, Code: is.Code, Dtype: is.Dtype}
		if withMsg {
			x.Msg = is.Message
		}
		out = append(out, x)
	}
	SortIss(out)
	return out
}

func SortIss(a []Iss) {
	for i := 1; i < len(a); i++ {
		for j := i; j > 0 && a[j].Key() < a[j-1].Key(); j-- {
			a[j], a[j-1] = a[j-1], a[j]
		}
	}
}

func EqualIss(a, b []Iss) bool {
	if len(a) != len(b) {
		return false
	}
	for i := range a {
		if a[i] != b[i] {
			return false
		}
	}
	return true
}

// EqualIssSpec compares observed issues with specified ones. The specification may leave the code of an
// issue open (Code "*": the statements say that a Preprocess failure "becomes an issue", not with which
// code), and an issue reported for a pointer node may carry the type "ptr" instead of the pointee's type
// (zconst defines both; which one is reported is not part of any statement here).
func EqualIssSpec(got, want []Iss) bool {
	if len(got) != len(want) {
		return false
	}
	g := append([]Iss(nil), got...)
	w := append([]Iss(nil), want...)
	used := make([]bool, len(g))
	// exact matches first
	for i := range w {
		if w[i].Code == "*" || w[i].Dtype == "*" {
			continue
		}
		for j := range g {
			if !used[j] && g[j] == w[i] {
				used[j] = true
				w[i].Path = "\x00matched"
				break
			}
		}
	}
	for i := range w {
		if w[i].Path == "\x00matched" {
			continue
		}
		ok := false
		for j := range g {
			if used[j] || g[j].Path != w[i].Path || g[j].Msg != w[i].Msg {
				continue
			}
			codeOK := w[i].Code == "*" || g[j].Code == w[i].Code
			typeOK := w[i].Dtype == "*" || g[j].Dtype == w[i].Dtype || (g[j].Dtype == "ptr" && (w[i].Code == "not_nil" || w[i].Code == "*"))
			if codeOK && typeOK {
				used[j], ok = true, true
				break
			}
		}
		if !ok {
			return false
		}
	}
	return true
}

func (e *Env) execOpts(x Exec) []z.ExecOption {
	var out []z.ExecOption
	for _, kv := range x.CtxVals {
		out = append(out, z.WithCtxValue(kv.K, kv.V.Go()))
	}
	if x.Formatter == TemplateFormatter {
		out = append(out, z.WithIssueFormatter(conf.NewDefaultFormatter(templateLangMap())))
	} else if x.Formatter == ValueTemplateFormatter {
		out = append(out, z.WithIssueFormatter(conf.NewDefaultFormatter(valueTemplateLangMap())))
	} else if x.Formatter != "" {
		marker := x.Formatter
		out = append(out, z.WithIssueFormatter(func(is *z.ZogIssue, ctx z.Ctx) { is.SetMessage(marker) }))
	} else if x.LogIssues {
		out = append(out, z.WithIssueFormatter(func(is *z.ZogIssue, ctx z.Ctx) {
			e.Log = append(e.Log, Event{Kind: "issue", Node: -1, Code: is.Code, Path: is.Path, Issue: is})
			conf.IssueFormatter(is, ctx)
		}))
	}
	return out
}

// NoopMsgFunc as Opts.MsgFunc: a MessageFunc that sets no message (the formatters below it decide).
const NoopMsgFunc = "@noop"

// DescribeMsgFunc as Opts.MsgFunc: a MessageFunc that renders the issue it is given (see DescribeIssue).
const DescribeMsgFunc = "@describe"

// DescribeIssue renders everything an issue says except its message and path: code, type, the offending value
// (pointers followed), the params and whether an error is attached.
func DescribeIssue(is *z.ZogIssue) string {
	val := "<none>"
	if rv := reflect.ValueOf(is.Value); rv.IsValid() {
		for rv.Kind() == reflect.Pointer && !rv.IsNil() {
			rv = rv.Elem()
		}
		val = rv.Type().String() + ":" + CanonJSON(rv)
	}
	keys := make([]string, 0, len(is.Params))
	for k := range is.Params {
		keys = append(keys, k)
	}
	sort.Strings(keys)
	var ps []string
	for _, k := range keys {
		ps = append(ps, fmt.Sprintf("%s=%v", k, addrFree(is.Params[k])))
	}
	return fmt.Sprintf("code=%s type=%s value=%s params=%v err=%v", is.Code, is.Dtype, val, ps, is.Err != nil)
}

func addrFree(v any) string {
	rv := reflect.ValueOf(v)
	if rv.IsValid() && (rv.Kind() == reflect.Pointer || rv.Kind() == reflect.Slice || rv.Kind() == reflect.Map) {
		return CanonJSON(rv)
	}
	return fmt.Sprintf("%v", v)
}

// TemplateFormatter as Exec.Formatter installs the library's own default formatter over a message catalogue whose
// templates use several placeholders each (the test's parameter and the keys of z.Params given by the generators).
const TemplateFormatter = "@templates"

// ValueTemplateFormatter as Exec.Formatter: the default formatter over a catalogue whose templates echo the offending
// value ({{value}}: the documented placeholder) next to the test's parameters. Messages may contain addresses.
const ValueTemplateFormatter = "@value-templates"

var valueTmplMap zconst.LangMap

func valueTemplateLangMap() zconst.LangMap {
	if valueTmplMap != nil {
		return valueTmplMap
	}
	m := zconst.LangMap{}
	for typ, msgs := range conf.DefaultIssueMessageMap {
		mm := map[zconst.ZogIssueCode]string{}
		for code := range msgs {
			mm[code] = "'{{value}}' is not acceptable: " + code + "={{" + code + "}} k1={{k1}}"
		}
		for _, code := range []string{"my_code", "custom", "x", "cc", "custom_fail", "ord", "rec"} {
			mm[code] = "'{{value}}' is not acceptable ({{k1}}/{{min}})"
		}
		m[typ] = mm
	}
	valueTmplMap = m
	return m
}

var tmplMap zconst.LangMap

func templateLangMap() zconst.LangMap {
	if tmplMap != nil {
		return tmplMap
	}
	m := zconst.LangMap{}
	for typ, msgs := range conf.DefaultIssueMessageMap {
		mm := map[zconst.ZogIssueCode]string{}
		for code, msg := range msgs {
			mm[code] = msg + " [k1={{k1}} min={{min}} k1={{k1}} " + code + "={{" + code + "}}]"
		}
		for _, code := range []string{"my_code", "custom", "x", "cc", "custom_fail", "ord"} {
			mm[code] = "between {{min}} and {{k1}} ({{k1}}/{{max}}/{{min}})"
		}
		m[typ] = mm
	}
	tmplMap = m
	return m
}

// Run executes schema on data (Parse) or on the destination itself (Validate).
// dest must be a pointer to a value of the schema's destination type. A panic
// is recovered and reported in the result.
func Run(schema z.ZogSchema, e *Env, x Exec, data any, dest reflect.Value) (res *Result) {
	return RunWith(schema, e, x, data, dest, nil)
}

// RunWith is Run with additional execution options.
func RunWith(schema z.ZogSchema, e *Env, x Exec, data any, dest reflect.Value, extra []z.ExecOption) (res *Result) {
	res = &Result{Dest: dest}
	if !e.Silent {
		e.Reset()
	}
	opts := append(e.execOpts(x), extra...)
	if x.Cold {
		zp.ClearPools()
	}
	defer func() {
		if p := recover(); p != nil {
			if s, ok := p.(string); ok && strings.HasPrefix(s, "model:") {
				panic(p)
			}
			if _, ok := p.(Uncertain); ok {
				panic(p)
			}
			res.Panic = p
			res.Stack = string(debug.Stack())
		}
		if !e.Silent {
			res.Log = append([]Event(nil), e.Log...)
		}
	}()
	parse := x.Mode == "parse"
	d := dest.Interface()
	switch s := schema.(type) {
	case *z.StringSchema[string]:
		if parse {
			res.List = s.Parse(data, d.(*string), opts...)
		} else {
			res.List = s.Validate(d.(*string), opts...)
		}
	case *z.NumberSchema[int]:
		if parse {
			res.List = s.Parse(data, d.(*int), opts...)
		} else {
			res.List = s.Validate(d.(*int), opts...)
		}
	case *z.NumberSchema[int32]:
		if parse {
			res.List = s.Parse(data, d.(*int32), opts...)
		} else {
			res.List = s.Validate(d.(*int32), opts...)
		}
	case *z.NumberSchema[int64]:
		if parse {
			res.List = s.Parse(data, d.(*int64), opts...)
		} else {
			res.List = s.Validate(d.(*int64), opts...)
		}
	case *z.NumberSchema[float32]:
		if parse {
			res.List = s.Parse(data, d.(*float32), opts...)
		} else {
			res.List = s.Validate(d.(*float32), opts...)
		}
	case *z.NumberSchema[float64]:
		if parse {
			res.List = s.Parse(data, d.(*float64), opts...)
		} else {
			res.List = s.Validate(d.(*float64), opts...)
		}
	case *z.BoolSchema[bool]:
		if parse {
			res.List = s.Parse(data, d.(*bool), opts...)
		} else {
			res.List = s.Validate(d.(*bool), opts...)
		}
	case *z.TimeSchema:
		if parse {
			res.List = s.Parse(data, d.(*time.Time), opts...)
		} else {
			res.List = s.Validate(d.(*time.Time), opts...)
		}
	case *z.Custom[string]:
		if parse {
			res.List = s.Parse(data, d.(*string), opts...)
		} else {
			res.List = s.Validate(d.(*string), opts...)
		}
	case *z.Custom[int]:
		if parse {
			res.List = s.Parse(data, d.(*int), opts...)
		} else {
			res.List = s.Validate(d.(*int), opts...)
		}
	case *z.StructSchema:
		res.IsMap = true
		if parse {
			res.Map = s.Parse(data, d, opts...)
		} else {
			res.Map = s.Validate(d, opts...)
		}
	case *z.SliceSchema:
		res.IsMap = true
		if parse {
			res.Map = s.Parse(data, d, opts...)
		} else {
			res.Map = s.Validate(d, opts...)
		}
	case *z.PointerSchema:
		res.IsMap = true
		if parse {
			res.Map = s.Parse(data, d, opts...)
		} else {
			res.Map = s.Validate(d, opts...)
		}
	case *z.PreprocessSchema[string, string]:
		ds, _ := data.(string)
		res.List = s.Parse(ds, d.(*string), opts...)
	case *z.PreprocessSchema[string, []string]:
		ds, _ := data.(string)
		res.List = s.Parse(ds, d.(*[]string), opts...)
	default:
		panic(fmt.Sprintf("model: Run: unsupported root schema %T", schema))
	}
	return res
}

// Exported handles for property-specific builders.

func TestOptions(e *Env, o Opts) []z.TestOption { return e.opts(o) }
func TestRecorder(e *Env, n *Node, idx int, pred string) z.BoolTFunc {
	return e.testFunc(n, idx, pred)
}
func Regex(s string) *regexp.Regexp { return regex(s) }
