package model

import (
	"encoding/json"
	"errors"
	"fmt"
	"math"
	mbig "math/big"
	"net"
	"net/url"
	"strings"
	"time"
)

// Wild values: Go values outside the plain Val grammar, used by C06 (no input
// can make Parse panic). Every entry is acyclic and finite.

type (
	NamedMap       map[string]any
	NamedStrMap    map[string]string
	NamedIntMap    map[string]int
	NamedFloatMap  map[string]float64
	NamedBoolMap   map[string]bool
	NamedString    string
	NamedInt       int
	NamedBool      bool
	NamedFloat     float64
	MapOfNamedStr  map[string]NamedString
	MapOfNamedInt  map[string]NamedInt
	MapNamedKey    map[NamedString]any
	MapIntAny      map[int]any
	MapAnyAny      map[any]any
	MapStrSlice    map[string][]string
	MapStrMap      map[string]map[string]any
	MapStrPtr      map[string]*string
	MapStrInt64    map[string]int64
	MapStrFloat32  map[string]float32
	MapStrIface    map[string]error
	NamedSlice     []any
	NamedStrSlice  []string
	Arr2           [2]int
	ExportedStruct struct {
		Name  string
		Age   int
		Tags  []string
		Email string
		A, B  string
		X1    any
	}
	UnexportedStruct struct {
		Name  string
		name  string
		age   int
		a, b  string
		email *string
		tags  []string
	}
	EmbeddedStruct struct {
		ExportedStruct
		Extra bool
	}
	EmbeddedPtrStruct struct {
		*ExportedStruct
		Extra bool
	}
	PtrStruct struct {
		Name *string
		Age  **int
		Next *PtrStruct
		F    func()
		C    chan int
		M    map[string]any
		I    any
		E    error
	}
)

func ptrTo[T any](v T) *T { return &v }

// ValStringer / ValErrorer: user types whose String / Error methods have value receivers (calling them through a nil
// pointer dereferences nil).
type ValStringer struct{ N int }

func (v ValStringer) String() string { return fmt.Sprintf("stringer-%d", v.N) }

// Cents / Level: numeric user types that print themselves as another number than the one they hold.
type Cents int64

func (c Cents) String() string { return fmt.Sprintf("%d.%02d", int64(c)/100, int64(c)%100) }

type Level int

func (l Level) String() string { return fmt.Sprintf("%d0", int(l)) }

type ValErrorer struct{ Msg string }

func (v ValErrorer) Error() string { return "errorer:" + v.Msg }

func init() {
	s := "pointed"
	i := 42
	pi := &i
	ppi := &pi
	pppi := &ppi
	ps := &s
	pps := &ps
	var nilMap map[string]any
	var nilSlice []any
	var nilStrSlice []string
	var nilPtrInt *int
	var nilPtrStr *string
	var nilPtrStruct *ExportedStruct
	var nilPtrMap *map[string]any
	var nilFunc func()
	var nilChan chan int
	var nilErr error
	m := map[string]any{"name": "m", "age": 1, "a": "x"}
	big := strings.Repeat("x", 200_000)
	reg := map[string]func() any{
		"named-map":        func() any { return NamedMap{"name": "n", "age": 3, "a": "A", "tags": []any{"t"}} },
		"named-map-empty":  func() any { return NamedMap{} },
		"named-str-map":    func() any { return NamedStrMap{"name": "n", "age": "3", "a": "A"} },
		"map-of-named-str": func() any { return MapOfNamedStr{"name": "n", "a": "A", "age": "7"} },
		"map-of-named-int": func() any { return MapOfNamedInt{"age": 7, "name": 1, "a": 2} },
		"map-named-key":    func() any { return MapNamedKey{"name": "n", "a": 1} },
		"map-int-any":      func() any { return MapIntAny{1: "x"} },
		"map-any-any":      func() any { return MapAnyAny{"name": "n", 2: 3} },
		"map-str-slice":    func() any { return MapStrSlice{"name": {"a", "b"}, "tags": {"t1"}, "a": nil} },
		"map-str-map":      func() any { return MapStrMap{"name": {"name": "x"}, "addr": {"zip": "1"}, "a": nil} },
		"map-str-ptr":      func() any { return MapStrPtr{"name": ps, "a": nil} },
		"map-str-int64":    func() any { return MapStrInt64{"age": 1 << 40, "name": 1, "a": -1} },
		"map-str-float32":  func() any { return MapStrFloat32{"age": 1.5, "name": 2, "a": float32(math.NaN())} },
		"map-str-error":    func() any { return MapStrIface{"name": errors.New("e"), "a": nil} },
		"map-str-string":   func() any { return map[string]string{"name": "n", "age": "5", "a": "", "tags": "t"} },
		"map-str-int":      func() any { return map[string]int{"name": 1, "age": 5, "a": 0} },
		"map-str-float64":  func() any { return map[string]float64{"name": 1.5, "age": math.Inf(1), "a": math.NaN()} },
		"map-str-bool":     func() any { return map[string]bool{"name": true, "flag": false, "a": true} },
		"map-str-uint8":    func() any { return map[string]uint8{"name": 1, "age": 255} },
		"map-str-bytes":    func() any { return map[string][]byte{"name": []byte("n"), "a": nil} },
		"map-str-struct":   func() any { return map[string]ExportedStruct{"name": {Name: "x"}, "addr": {A: "1"}} },
		"nil-map":          func() any { return nilMap },
		"nil-named-map":    func() any { return NamedMap(nil) },
		"nil-str-map":      func() any { return map[string]string(nil) },
		"ptr-map":          func() any { return &m },
		"ptr-ptr-map":      func() any { p := &m; return &p },
		"nil-ptr-map":      func() any { return nilPtrMap },
		"ptr-named-map":    func() any { nm := NamedMap{"name": "n"}; return &nm },
		"named-slice":      func() any { return NamedSlice{"a", 1, nil} },
		"named-str-slice":  func() any { return NamedStrSlice{"a", "", " "} },
		"nil-slice":        func() any { return nilSlice },
		"nil-str-slice":    func() any { return nilStrSlice },
		"slice-of-slices":  func() any { return [][]any{{"a"}, nil, {}} },
		"slice-of-maps":    func() any { return []map[string]any{{"name": "x"}, nil, {}} },
		"slice-of-ptrs":    func() any { return []*string{ps, nil} },
		"slice-of-named":   func() any { return []NamedString{"a", ""} },
		"slice-of-structs": func() any { return []ExportedStruct{{Name: "a"}, {}} },
		"slice-of-uint8":   func() any { return []uint8{1, 2, 255} },
		"bytes":            func() any { return []byte("bytes\xff") },
		"array":            func() any { return Arr2{1, 2} },
		"nil-ptr-url":      func() any { return (*url.URL)(nil) },
		"nil-ptr-duration": func() any { return (*time.Duration)(nil) },
		"nil-ptr-time":     func() any { return (*time.Time)(nil) },
		"nil-ptr-ip":       func() any { return (*net.IP)(nil) },
		"nil-ptr-bigint":   func() any { return (*mbig.Int)(nil) },
		"nil-ptr-stringer": func() any { return (*ValStringer)(nil) },
		"nil-ptr-errorer":  func() any { return (*ValErrorer)(nil) },
		"stringer":         func() any { return ValStringer{N: 3} },
		"ptr-url":          func() any { u, _ := url.Parse("https://example.com/x?y=1"); return u },
		"ip":               func() any { return net.IPv4(10, 0, 0, 1) },
		"bigint":           func() any { return mbig.NewInt(12345) },
		"bytes-empty":      func() any { return []byte{} },
		"bytes-15":         func() any { return make([]byte, 15) },
		"bytes-16":         func() any { return []byte("0123456789abcdef") },
		"bytes-17":         func() any { return make([]byte, 17) },
		"array-16-bytes":   func() any { return [16]byte{1, 2, 3} },
		"ints-1":           func() any { return []int{1} },
		"ints-2":           func() any { return []int{1, 2} },
		"ints-4":           func() any { return []int{1, 2, 3, 4} },
		"array-4-ints":     func() any { return [4]int{1, 2, 3, 4} },
		"array-0-ints":     func() any { return [0]int{} },
		"strings-1":        func() any { return []string{"one"} },
		"array-2-strings":  func() any { return [2]string{"a", "b"} },
		"ptr-array":        func() any { a := Arr2{3, 4}; return &a },
		"map-str-int-1":    func() any { return map[string]int{"k": 1} },
		"array-of-any":     func() any { return [3]any{"a", nil, 1} },
		"ptr-slice":        func() any { l := []any{"a", "b"}; return &l },
		"struct-exported": func() any {
			return ExportedStruct{Name: "N", Age: 30, Tags: []string{"t"}, Email: "a@b.c", A: "a", B: "b", X1: 1}
		},
		"struct-exported-zero": func() any { return ExportedStruct{} },
		"struct-unexported": func() any {
			return UnexportedStruct{Name: "N", name: "n", age: 1, a: "a", b: "b", email: ps, tags: []string{"t"}}
		},
		"struct-embedded":     func() any { return EmbeddedStruct{ExportedStruct: ExportedStruct{Name: "E"}, Extra: true} },
		"struct-embedded-nil": func() any { return EmbeddedPtrStruct{} },
		"struct-embedded-ptr": func() any { return EmbeddedPtrStruct{ExportedStruct: &ExportedStruct{Name: "E", A: "a"}} },
		"struct-ptrs": func() any {
			return PtrStruct{Name: ps, Age: ppi, Next: &PtrStruct{}, F: func() {}, C: make(chan int), M: m, I: pi, E: errors.New("x")}
		},
		"struct-ptrs-zero":   func() any { return PtrStruct{} },
		"ptr-struct":         func() any { return &ExportedStruct{Name: "P", A: "a"} },
		"ptr-struct-unexp":   func() any { return &UnexportedStruct{name: "n"} },
		"nil-ptr-struct":     func() any { return nilPtrStruct },
		"empty-struct":       func() any { return struct{}{} },
		"anon-struct":        func() any { return struct{ Name, name string }{"N", "n"} },
		"time":               func() any { return time.Date(2020, 1, 2, 3, 4, 5, 6, time.UTC) },
		"ptr-time":           func() any { t := time.Unix(0, 0); return &t },
		"zero-time":          func() any { return time.Time{} },
		"duration":           func() any { return 90 * time.Second },
		"nil-ptr-int":        func() any { return nilPtrInt },
		"nil-ptr-str":        func() any { return nilPtrStr },
		"ptr-int":            func() any { return pi },
		"ptr-ptr-int":        func() any { return ppi },
		"ptr3-int":           func() any { return pppi },
		"ptr4-int":           func() any { return &pppi },
		"ptr-str":            func() any { return ps },
		"ptr-ptr-str":        func() any { return pps },
		"ptr-empty-str":      func() any { return ptrTo("") },
		"ptr-nil-iface":      func() any { var a any; return &a },
		"ptr-iface-str":      func() any { var a any = "inner"; return &a },
		"nil-func":           func() any { return nilFunc },
		"func":               func() any { return func() {} },
		"nil-chan":           func() any { return nilChan },
		"chan":               func() any { return make(chan int, 1) },
		"nil-error":          func() any { return nilErr },
		"error":              func() any { return errors.New("an error value") },
		"int8-min":           func() any { return int8(math.MinInt8) },
		"int16":              func() any { return int16(-300) },
		"uint":               func() any { return uint(7) },
		"uint8":              func() any { return uint8(255) },
		"uint16":             func() any { return uint16(65535) },
		"uint32":             func() any { return uint32(math.MaxUint32) },
		"uint64-max":         func() any { return uint64(math.MaxUint64) },
		"uintptr":            func() any { return uintptr(9) },
		"int64-min":          func() any { return int64(math.MinInt64) },
		"int64-max":          func() any { return int64(math.MaxInt64) },
		"int-min":            func() any { return math.MinInt },
		"float32":            func() any { return float32(1.5) },
		"float32-nan":        func() any { return float32(math.NaN()) },
		"float32-inf":        func() any { return float32(math.Inf(-1)) },
		"nan":                func() any { return math.NaN() },
		"inf":                func() any { return math.Inf(1) },
		"neg-inf":            func() any { return math.Inf(-1) },
		"neg-zero":           func() any { return math.Copysign(0, -1) },
		"max-float":          func() any { return math.MaxFloat64 },
		"tiny-float":         func() any { return math.SmallestNonzeroFloat64 },
		"complex":            func() any { return complex(1, 2) },
		"complex64":          func() any { return complex64(complex(0, -1)) },
		"json-number":        func() any { return json.Number("12.5") },
		"json-number-bad":    func() any { return json.Number("zz") },
		"json-raw":           func() any { return json.RawMessage(`{"a":1}`) },
		"named-string":       func() any { return NamedString("named") },
		"named-string-empty": func() any { return NamedString("") },
		"named-int":          func() any { return NamedInt(5) },
		"named-bool":         func() any { return NamedBool(true) },
		"named-float":        func() any { return NamedFloat(2.5) },
		"rune":               func() any { return 'x' },
		"invalid-utf8":       func() any { return "bad\xff\xfeutf8" },
		"nul-string":         func() any { return "a\x00b" },
		"huge-string":        func() any { return big },
		"huge-digits":        func() any { return strings.Repeat("9", 5000) },
		"spaces":             func() any { return "   \t\n" },
		"nbsp":               func() any { return "  " },
		"bool-ptr":           func() any { return ptrTo(true) },
		"long-list-65": func() any {
			l := make([]any, 65)
			for i := range l {
				l[i] = i
			}
			return l
		},
		"long-strlist-300": func() any {
			l := make([]string, 300)
			for i := range l {
				l[i] = "s"
			}
			return l
		},
		"long-maps-70": func() any {
			l := make([]any, 70)
			for i := range l {
				l[i] = map[string]any{"name": i, "id": i}
			}
			return l
		},
		"nested-any": func() any {
			return map[string]any{"name": map[string]any{"name": map[string]any{"name": []any{map[string]any{}}}}}
		},
	}
	for k, f := range reg {
		WildRegistry[k] = f
	}
}

// WildNames lists the registry in a fixed order.
func WildNames() []string { return SortedKeys(WildRegistry) }
