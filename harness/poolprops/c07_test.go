package poolprops

import (
	"fmt"
	"net/http"
	"reflect"
	"regexp"
	"runtime"
	"sort"
	"strings"
	"sync"
	"testing"

	z "github.com/Oudwins/zog"
	"github.com/Oudwins/zog/conf"
	"github.com/Oudwins/zog/i18n"
	"github.com/Oudwins/zog/i18n/en"
	"github.com/Oudwins/zog/i18n/es"
	p "github.com/Oudwins/zog/internals"
	"github.com/Oudwins/zog/parsers/zjson"
	"github.com/Oudwins/zog/zhttp"
	"pgregory.net/rapid"

	"verifharness/hh"
	"verifharness/model"
)

// C07: each execution is isolated from every other execution.
// The only package of the harness that imports zog/internals (for the pools).

type c07Op struct {
	Op   string `json:"op"`             // call | collect | gc | dirty | panic | nested
	I    int    `json:"i,omitempty"`    // call index (panic: variant)
	How  string `json:"how,omitempty"`  // collect: each | list-or-map | sanitize; nested: the outer execution
	Pool string `json:"pool,omitempty"` // dirty: exec | schema | issue | list | map | path | sb | all
}

type c07Case struct {
	Calls []model.Case `json:"calls"`
	// Same[i] >= 0: call i uses the schema OBJECT of call Same[i] (its Root is a copy of that call's Root), with a
	// destination type whose fields are rotated by Rot[i]: one schema value serving several Go types across calls
	Same []int `json:"same,omitempty"`
	Rot  []int `json:"rot,omitempty"`
	// JSON[i] != "": call i hands this document over through zjson.Decode (struct roots, parse) instead of Input;
	// "form:<body>": an urlencoded POST body through zhttp.Request
	JSON []string `json:"json,omitempty"`
	Ops  []c07Op  `json:"ops"`
}

// long bodies: an object followed by kilobytes of trailing data (padding and a second document), and a long body that
// is not JSON at all (an HTML page posted with a JSON content type)
var c07LongTrailing = `{"name":"first"}` + strings.Repeat(" ", 3000) + `{"name":"mallory","age":1,"a":"leftover"}` + strings.Repeat("\n", 1200)
var c07LongGarbage = strings.Repeat("<html><body>not json</body></html>", 120) + `{"name":"mallory"}`

var addrRe = regexp.MustCompile(`0xc[0-9a-f]{6,}`)

var watchKeys = []string{"k1", "k2", i18n.LangKey}

func canonParams(pm map[string]any) string {
	if pm == nil {
		return "nil"
	}
	ks := make([]string, 0, len(pm))
	for k := range pm {
		ks = append(ks, k)
	}
	sort.Strings(ks)
	var sb strings.Builder
	for _, k := range ks {
		fmt.Fprintf(&sb, "%s=%s;", k, model.CanonJSON(reflect.ValueOf(pm[k])))
	}
	return sb.String()
}

func canonValue(v any) string {
	rv := reflect.ValueOf(v)
	for rv.IsValid() && rv.Kind() == reflect.Pointer && !rv.IsNil() {
		rv = rv.Elem()
	}
	if !rv.IsValid() {
		return "nil"
	}
	switch rv.Kind() {
	case reflect.Func, reflect.Chan:
		return rv.Kind().String()
	}
	return model.CanonJSON(rv)
}

// observe serialises everything a caller can see of one execution.
func observe(res *model.Result) string {
	var iss []string
	for _, is := range res.All() {
		e := "<nil>"
		if is.Err != nil {
			e = is.Err.Error()
		}
		iss = append(iss, fmt.Sprintf("{code=%q path=%q type=%q msg=%q params=%s value=%s err=%q}", is.Code, is.Path, is.Dtype, is.Message, canonParams(is.Params), canonValue(is.Value), e))
	}
	sort.Strings(iss)
	var ctx []string
	for _, ev := range res.Log {
		if ev.Ctx != nil {
			ctx = append(ctx, fmt.Sprintf("%s:n%d:%v", ev.Kind, ev.Node, ev.Ctx))
		}
	}
	sort.Strings(ctx) // field visit order is not part of the observation
	keys := ""
	if res.IsMap && res.Map != nil {
		keys = strings.Join(model.SortedKeys(res.Map), ",")
		if f := res.Map["$first"]; len(f) != 1 {
			keys += fmt.Sprintf(" $first-len=%d", len(f))
		} else {
			// which issue is $first may depend on the visit order, but it is one of the issues of this very map
			member := false
			for k, l := range res.Map {
				for _, is := range l {
					member = member || (k != "$first" && is == f[0])
				}
			}
			if !member {
				keys += fmt.Sprintf(" $first-is-foreign(%s at %q)", f[0].Code, f[0].Path)
			}
		}
	}
	// messages may print the address of a pointer parameter (Slice(Ptr(T)).Contains(&v)): not part of the observation
	return addrRe.ReplaceAllString(fmt.Sprintf("nil=%v issues=%v keys=%s dest=%s ctx=%v panic=%v", res.NoIssues(), iss, keys, model.CanonJSON(res.Dest.Elem()), ctx, res.Panic), "0xADDR")
}

type built struct {
	json    string
	schema  z.ZogSchema
	typ     reflect.Type
	baseTyp reflect.Type
	env     *model.Env
	c       model.Case
}

func (b *built) run() *model.Result {
	dest := reflect.New(b.typ)
	var in any
	if b.c.Exec.Mode == "validate" {
		model.SetFromVal(dest.Elem(), b.c.Input)
	} else if body, ok := strings.CutPrefix(b.json, "form:"); ok {
		// an urlencoded request body through zhttp (mostly malformed ones: the decode-failure issue is made by the front end)
		req, _ := http.NewRequest("POST", "http://example.test/x", strings.NewReader(body))
		req.Header.Set("Content-Type", "application/x-www-form-urlencoded")
		in = zhttp.Request(req)
	} else if b.json != "" {
		in = zjson.Decode(strings.NewReader(b.json))
	} else {
		in = b.c.Input.Go()
	}
	return model.Run(b.schema, b.env, b.c.Exec, in, dest)
}

// ---- dirty objects of reachable shape ----

func junkIssue() *p.ZogIssue {
	return &p.ZogIssue{Code: "junk_code", Path: "junk.path", Value: "junk-value", Dtype: "junk-type", Params: map[string]any{"junk": 1, "min": 99}, Message: "junk message", Err: fmt.Errorf("junk error")}
}

func injectDirty(pool string) {
	junkFmt := func(e *p.ZogIssue, c p.Ctx) { e.SetMessage("JUNK-FORMATTER") }
	if pool == "exec" || pool == "all" {
		p.ExecCtxPool = sync.Pool{New: func() any {
			c := &p.ExecCtx{}
			c.Set("k1", "dirty-k1")
			c.Set("k2", "dirty-k2")
			c.Set(i18n.LangKey, "es")
			c.SetIssueFormatter(junkFmt)
			c.Errors = &p.ErrsList{List: p.ZogIssueList{junkIssue()}}
			return c
		}}
	}
	if pool == "schema" || pool == "all" {
		p.SchemaCtxPool = sync.Pool{New: func() any {
			jp := p.PathBuilder{"", "junk"}
			return &p.SchemaCtx{Data: "junk-data", ValPtr: new(int), Path: &jp, DType: "junk-type", CanCatch: true, Exit: true, HasCaught: true, Test: &p.Test{IssueCode: "junk_test"}}
		}}
	}
	if pool == "issue" || pool == "all" {
		p.ZogIssuePool = sync.Pool{New: func() any { return junkIssue() }}
	}
	if pool == "list" || pool == "all" {
		p.InternalIssueListPool = sync.Pool{New: func() any { return &p.ErrsList{List: p.ZogIssueList{junkIssue(), junkIssue()}} }}
	}
	if pool == "map" || pool == "all" {
		p.InternalIssueMapPool = sync.Pool{New: func() any {
			return &p.ErrsMap{M: p.ZogIssueMap{"$first": {junkIssue()}, "junk": {junkIssue()}}}
		}}
	}
	if pool == "path" || pool == "all" {
		p.PathBuilderPool = sync.Pool{New: func() any {
			pb := p.PathBuilder{"", "junk", "[7]", "more"} // element 0 is "" in every state zog itself can release
			return &pb
		}}
	}
	if pool == "sb" || pool == "all" {
		p.StringBuilderPool = sync.Pool{New: func() any {
			sb := &strings.Builder{}
			sb.WriteString("JUNK-PREFIX")
			return sb
		}}
	}
}

// panicSchemaRun runs one execution whose user callback panics (recovered by the caller, as net/http does); the variants
// differ in the root schema, the mode and the place the panic comes from.
func panicSchemaRun(variant int) {
	defer func() { recover() }()
	boom := func(v any, ctx z.Ctx) bool { panic("user callback panics") }
	type Addr struct {
		Zip  string
		City string
	}
	type P struct {
		Name    string
		Address Addr
		Items   []Addr
	}
	opts := []z.ExecOption{z.WithCtxValue("k1", "from-panicking-call"), z.WithCtxValue(i18n.LangKey, "es"),
		z.WithIssueFormatter(func(e *z.ZogIssue, c z.Ctx) { e.SetMessage("PANIC-CALL-FORMATTER") })}
	addr := func() *z.StructSchema {
		return z.Struct(z.Schema{"zip": z.String().Min(50).TestFunc(boom), "city": z.String().Min(50, z.Message("too short"))})
	}
	in := map[string]any{"name": "n", "address": map[string]any{"zip": "z", "city": "c"}, "items": []any{map[string]any{"zip": "z", "city": "c"}, map[string]any{"zip": "y", "city": "d"}}}
	val := P{Name: "n", Address: Addr{Zip: "z", City: "c"}, Items: []Addr{{Zip: "z", City: "c"}, {Zip: "y", City: "d"}}}
	switch variant % 8 {
	case 1: // pointer to a struct at the root, the panic two levels down
		var d *P
		z.Ptr(z.Struct(z.Schema{"name": z.String().Min(50), "address": addr()})).Parse(in, &d, opts...)
		return
	case 2: // the same in Validate
		d := &val
		z.Ptr(z.Struct(z.Schema{"name": z.String().Min(50), "address": addr()})).Validate(&d, opts...)
		return
	case 3: // list of structs behind a pointer, the panic inside the second element
		var d *[]Addr
		z.Ptr(z.Slice(z.Struct(z.Schema{"zip": z.String().Min(50), "city": z.String().TestFunc(func(v any, ctx z.Ctx) bool {
			if s, _ := v.(string); s == "d" {
				panic("user callback panics")
			}
			return false
		})}))).Parse(in["items"], &d, opts...)
		return
	case 4: // documented panic: the destination lacks a field the schema names, below the root
		var d struct {
			Name    string
			Address struct{ Zip string }
		}
		z.Struct(z.Schema{"name": z.String().Min(50), "address": z.Struct(z.Schema{"zip": z.String().Min(50), "city": z.String()})}).Parse(in, &d, opts...)
		return
	case 5: // a PostTransform of a list element panics
		var d []Addr
		z.Slice(z.Struct(z.Schema{"zip": z.String(), "city": z.String()}).PostTransform(func(v any, ctx z.Ctx) error { panic("user callback panics") })).Parse(in["items"], &d, opts...)
		return
	case 6: // a custom schema's function panics, at the root and behind a pointer
		var s string
		z.CustomFunc(func(p *string, ctx z.Ctx) bool { panic("user callback panics") }).Parse("x", &s, opts...)
		return
	case 7: // a Preprocess function panics below a pointer root
		var d *P
		z.Ptr(z.Struct(z.Schema{"name": z.String().Min(50), "address": z.Struct(z.Schema{"zip": z.Preprocess(func(data string, ctx z.Ctx) (string, error) { panic("user callback panics") }, z.String()), "city": z.String().Min(50)})})).Parse(in, &d, opts...)
		return
	}
	type D struct {
		A string
		B []string
	}
	var d D
	s := z.Struct(z.Schema{
		"a": z.String().Min(50).Catch("caught"),
		"b": z.Slice(z.String().Min(50, z.Message("too short"))).TestFunc(func(v any, ctx z.Ctx) bool { panic("user callback panics") }),
	})
	s.Parse(map[string]any{"a": "x", "b": []any{"y", "z"}}, &d, z.WithCtxValue("k1", "from-panicking-call"), z.WithCtxValue(i18n.LangKey, "es"),
		z.WithIssueFormatter(func(e *z.ZogIssue, c z.Ctx) { e.SetMessage("PANIC-CALL-FORMATTER") }))
}

// nestedRun runs inner from inside a user callback of an outer execution, two levels below the outer root.
func nestedRun(how string, inner func()) {
	type Addr struct{ Zip string }
	type P struct {
		Name    string
		Address Addr
	}
	ran := false
	cb := func(v any, ctx z.Ctx) bool {
		if !ran {
			ran = true
			inner()
		}
		return false
	}
	in := map[string]any{"name": "n", "address": map[string]any{"zip": "z"}}
	opts := []z.ExecOption{z.WithCtxValue("k2", "from-outer-call"), z.WithIssueFormatter(func(e *z.ZogIssue, c z.Ctx) { e.SetMessage("OUTER-CALL-FORMATTER") })}
	switch how {
	case "ptr-parse":
		var d *P
		z.Ptr(z.Struct(z.Schema{"name": z.String().Min(50), "address": z.Struct(z.Schema{"zip": z.String().TestFunc(cb)})})).Parse(in, &d, opts...)
	case "ptr-validate":
		d := &P{Name: "n", Address: Addr{Zip: "z"}}
		z.Ptr(z.Struct(z.Schema{"name": z.String().Min(50), "address": z.Struct(z.Schema{"zip": z.String().TestFunc(cb)})})).Validate(&d, opts...)
	case "slice-parse":
		var d []Addr
		z.Slice(z.Struct(z.Schema{"zip": z.String().TestFunc(cb)})).Parse([]any{map[string]any{"zip": "a"}, map[string]any{"zip": "b"}}, &d, opts...)
	case "post":
		var d P
		z.Struct(z.Schema{"name": z.String(), "address": z.Struct(z.Schema{"zip": z.String()}).PostTransform(func(v any, ctx z.Ctx) error { inner(); return nil })}).Parse(in, &d, opts...)
	default:
		var d P
		z.Struct(z.Schema{"name": z.String().Min(50), "address": z.Struct(z.Schema{"zip": z.String().TestFunc(cb)})}).Parse(in, &d, opts...)
	}
}

func propC07(c c07Case) hh.Verdict {
	saved := conf.IssueFormatter
	defer func() { conf.IssueFormatter = saved; p.ClearPools() }()
	i18n.SetLanguagesErrsMap(map[string]i18n.LangMap{"en": en.Map, "es": es.Map}, "en")
	calls := make([]*built, len(c.Calls))
	expected := make([]string, len(c.Calls))
	shared := false
	for i, cs := range c.Calls {
		cs.Root.Number()
		rot := 0
		if i < len(c.Rot) {
			rot = c.Rot[i]
		}
		// expected result: the same call on pristine pools with a schema object that was never used before
		fenv := &model.Env{WatchKeys: watchKeys}
		fs, ft := model.Build(cs.Root, fenv)
		js := ""
		if i < len(c.JSON) {
			js = c.JSON[i]
		}
		fresh := &built{schema: fs, typ: model.RetaggedStruct(ft, nil, rot), env: fenv, c: cs, json: js}
		p.ClearPools()
		res := fresh.run()
		if res.Panic != nil {
			return hh.Verdict{Skip: "call-panics-on-pristine-pools"}
		}
		expected[i] = observe(res)
		// the long-lived object used during the history
		if i < len(c.Same) && c.Same[i] >= 0 && c.Same[i] < i {
			j := c.Same[i]
			calls[i] = &built{schema: calls[j].schema, typ: model.RetaggedStruct(calls[j].baseTyp, nil, rot), baseTyp: calls[j].baseTyp, env: calls[j].env, c: cs, json: js}
			shared = true
		} else {
			env := &model.Env{WatchKeys: watchKeys}
			s, t := model.Build(cs.Root, env)
			calls[i] = &built{schema: s, typ: model.RetaggedStruct(t, nil, rot), baseTyp: t, env: env, c: cs, json: js}
		}
	}
	p.ClearPools()
	pending := map[int]*model.Result{}
	v := hh.Verdict{}
	leakSource, dirtied, afterSource := false, false, false
	for step, op := range c.Ops {
		switch op.Op {
		case "call":
			if op.I >= len(calls) {
				continue
			}
			res := calls[op.I].run()
			if got := observe(res); got != expected[op.I] {
				return hh.Fail("step %d: call #%d gives a different result after this history than on pristine pools:\n got  %s\n want %s", step, op.I, got, expected[op.I])
			}
			// results other callers still hold are theirs: a later call does not reach into them
			for k, held := range pending {
				if k != op.I {
					if now := observe(held); now != expected[k] {
						return hh.Fail("step %d: the result of call #%d, still held by its caller, changed when call #%d ran:\n now  %s\n was  %s", step, k, op.I, now, expected[k])
					}
				}
			}
			pending[op.I] = res
			cs := c.Calls[op.I]
			if leakSource || dirtied {
				afterSource = true
			}
			if len(cs.Exec.CtxVals) > 0 || cs.Exec.Formatter != "" || len(res.All()) > 0 {
				leakSource = true
			}
		case "collect":
			res := pending[op.I]
			if res == nil {
				continue
			}
			delete(pending, op.I)
			switch {
			case op.How == "each":
				for _, is := range res.All() {
					z.Issues.Collect(is)
				}
			case op.How == "sanitize" && res.IsMap:
				z.Issues.SanitizeMapAndCollect(res.Map)
			case op.How == "sanitize":
				z.Issues.SanitizeListAndCollect(res.List)
			case res.IsMap:
				z.Issues.CollectMap(res.Map)
			default:
				z.Issues.CollectList(res.List)
			}
			// collected issues are never looked at again
		case "gc":
			runtime.GC()
			runtime.GC()
		case "dirty":
			injectDirty(op.Pool)
			dirtied = true
		case "panic":
			panicSchemaRun(op.I)
			leakSource = true
		case "nested":
			// the call is made by a user callback of another execution (a test that validates a related value with
			// a schema of its own): it is a call like any other
			if op.I >= len(calls) {
				continue
			}
			var res *model.Result
			nestedRun(op.How, func() { res = calls[op.I].run() })
			if res == nil {
				continue
			}
			if got := observe(res); got != expected[op.I] {
				return hh.Fail("step %d: call #%d, made from inside a callback of another execution (%s), gives a different result than on pristine pools:\n got  %s\n want %s", step, op.I, op.How, got, expected[op.I])
			}
			pending[op.I] = res
			leakSource = true
			v.Classes = append(v.Classes, "nested-call")
		}
	}
	v.Nontrivial = afterSource
	if dirtied {
		v.Classes = append(v.Classes, "dirty-injected")
	}
	if shared {
		v.Classes = append(v.Classes, "schema-object-shared-across-calls")
	}
	if leakSource {
		v.Classes = append(v.Classes, "leak-source")
	}
	return v
}

func genC07(rt *rapid.T, thorough bool) c07Case {
	var c c07Case
	ncalls := rapid.IntRange(3, 8).Draw(rt, "ncalls")
	if thorough {
		ncalls = rapid.IntRange(4, 14).Draw(rt, "ncallsT")
	}
	for i := 0; i < ncalls; i++ {
		mode := rapid.SampledFrom([]string{"parse", "validate"}).Draw(rt, "mode")
		cfg := model.DefaultCfg(mode)
		cfg.MaxDepth = 2
		cfg.PCatch, cfg.PVary, cfg.PAbsent, cfg.PJunk, cfg.PTestSat, cfg.POpts, cfg.PPost = 0.3, 0.4, 0.15, 0.12, 0.6, 0.15, 0
		cfg.PPre = 0.1 // Preprocess wrappers: their failure issues are built by the library outside any test
		failingPost := rapid.IntRange(0, 4).Draw(rt, "failingpost") == 0
		if failingPost {
			// a call whose only possible issue is the error one PostTransform returns (no tests, nothing required, valid
			// input): determined whatever the field order, and built entirely from recycled helper objects
			cfg.PCatch, cfg.PReq, cfg.PDefault, cfg.PJunk, cfg.PAbsent, cfg.PPre, cfg.PCoercer = 0, 0, 0, 0, 0.1, 0, 0
			cfg.MaxTests, cfg.NoFuncTests, cfg.NoCustom = 0, true, true
			cfg.RootKinds = []string{model.KStruct, model.KStruct, model.KSlice, model.KPtr}
		}
		cs := model.GenCase(rt, cfg)
		if failingPost {
			var nodes []*model.Node
			cs.Root.Walk(func(n *model.Node) { nodes = append(nodes, n) })
			at := nodes[rapid.IntRange(0, len(nodes)-1).Draw(rt, "postat")]
			at.Posts = []model.PostSpec{{Behaviour: "error"}}
			cs = model.RoundTrip(cs)
			if !model.OnlyPostFailure(cs.Root, cs.Exec.Mode, cs.Input) {
				// something else in this call can produce an issue: which PostTransforms still run would then depend on the visit order
				cs.Root.Walk(func(n *model.Node) { n.Posts = nil })
			}
		}
		// make sure callbacks exist that read the context
		cs.Root.Walk(func(n *model.Node) {
			if !failingPost && (model.IsPrimitive(n.Kind) || n.Kind == model.KStruct || n.Kind == model.KSlice) {
				n.Tests = append(n.Tests, model.TestSpec{Name: "func", Str: "pass", Opts: model.Opts{Code: "rec"}})
			}
		})
		for _, k := range rapid.SliceOfNDistinct(rapid.SampledFrom(watchKeys), 0, 3, rapid.ID[string]).Draw(rt, "ctxkeys") {
			val := model.Str("v-" + k)
			if k == i18n.LangKey {
				val = model.Str(rapid.SampledFrom([]string{"es", "en", "fr"}).Draw(rt, "lang"))
			}
			cs.Exec.CtxVals = append(cs.Exec.CtxVals, model.KV{K: k, V: val})
		}
		if rapid.IntRange(0, 3).Draw(rt, "fmt") == 0 {
			cs.Exec.Formatter = "EXEC-FMT"
		}
		c.Calls = append(c.Calls, cs)
		c.Same = append(c.Same, -1)
		c.Rot = append(c.Rot, 0)
		js := ""
		if mode == "parse" && cs.Root.Kind == model.KStruct && !failingPost && rapid.IntRange(0, 3).Draw(rt, "json") == 0 {
			var sb strings.Builder
			if err := model.JSONOf(cs.Root, cs.Input, &sb); err == nil && rapid.Bool().Draw(rt, "jvalid") {
				js = sb.String()
			} else {
				js = rapid.SampledFrom([]string{"null", "[1]", `{"a":`, `"s"`, "", "form:name=%zz", "form:a=%", "form:x=1;y=2", "form:zzz=1", c07LongTrailing, c07LongGarbage}).Draw(rt, "jbad")
				if js == "" {
					js = " "
				}
			}
		}
		c.JSON = append(c.JSON, js)
		// sometimes a second call that reuses this schema object with another destination type and other data
		if cs.Root.Kind == model.KStruct && !failingPost && len(c.Calls) < ncalls && rapid.IntRange(0, 2).Draw(rt, "reuse") == 0 {
			cfg2 := cfg
			cfg2.Mode = rapid.SampledFrom([]string{"parse", "validate"}).Draw(rt, "mode2")
			cs.Root.Walk(func(n *model.Node) {
				if n.Kind == model.KPre {
					cfg2.Mode = mode // a Preprocess function is written for one mode (input type F vs pointer to the value)
				}
			})
			g := model.NewGen(rt, cfg2)
			twin := model.RoundTrip(cs)
			twin.Exec.Mode = cfg2.Mode
			seedWitnesses(g, twin.Root)
			typed := g.GenTyped(twin.Root)
			if cfg2.Mode == "parse" {
				twin.Input, _ = g.Render(twin.Root, typed, "root")
			} else {
				twin.Input = typed
			}
			c.Calls = append(c.Calls, twin)
			c.JSON = append(c.JSON, "")
			c.Same = append(c.Same, len(c.Calls)-2)
			c.Rot = append(c.Rot, rapid.IntRange(1, 3).Draw(rt, "rot"))
			i++
		}
	}
	ncalls = len(c.Calls)
	nops := rapid.IntRange(4, 20).Draw(rt, "nops")
	if thorough {
		nops = rapid.IntRange(6, 40).Draw(rt, "nopsT")
	}
	for i := 0; i < nops; i++ {
		switch rapid.SampledFrom([]string{"call", "call", "call", "collect", "collect", "gc", "dirty", "panic", "call", "collect", "nested", "panic"}).Draw(rt, "op") {
		case "call":
			c.Ops = append(c.Ops, c07Op{Op: "call", I: rapid.IntRange(0, ncalls-1).Draw(rt, "i")})
		case "collect":
			c.Ops = append(c.Ops, c07Op{Op: "collect", I: rapid.IntRange(0, ncalls-1).Draw(rt, "ci"), How: rapid.SampledFrom([]string{"each", "list-or-map", "sanitize"}).Draw(rt, "how")})
		case "gc":
			c.Ops = append(c.Ops, c07Op{Op: "gc"})
		case "dirty":
			c.Ops = append(c.Ops, c07Op{Op: "dirty", Pool: rapid.SampledFrom([]string{"exec", "schema", "issue", "list", "map", "path", "sb", "all"}).Draw(rt, "pool")})
		case "panic":
			c.Ops = append(c.Ops, c07Op{Op: "panic", I: rapid.IntRange(0, 7).Draw(rt, "pv")})
		case "nested":
			c.Ops = append(c.Ops, c07Op{Op: "nested", I: rapid.IntRange(0, ncalls-1).Draw(rt, "ni"), How: rapid.SampledFrom([]string{"struct-parse", "ptr-parse", "ptr-validate", "slice-parse", "post"}).Draw(rt, "nhow")})
		}
	}
	return c
}

// seedWitnesses gives a copied schema tree plausible witnesses (values are drawn around them).
func seedWitnesses(g *model.Gen, n *model.Node) {
	n.Walk(func(x *model.Node) {
		switch {
		case model.IsPrimitive(x.Kind):
			g.SetWitness(x, g.Witness(x.Kind))
		case x.Kind == model.KSlice:
			g.SetWitness(x, model.Int(2))
		case x.Kind == model.KCustom:
			if x.CustomT == "string" {
				g.SetWitness(x, model.Str("cw"))
			} else {
				g.SetWitness(x, model.Int(3))
			}
		}
	})
}

func TestC07(t *testing.T) {
	h := hh.Start(t, "C07",
		"cases = histories over a pool of 3-8 (thorough 4-14) generated calls (schema - a fifth of them test-free with exactly one PostTransform that returns an error -, data as Go value / zjson document / urlencoded body through zhttp, mode, WithCtxValue sets incl. the i18n language key, WithIssueFormatter), executed in random order with interleaved actions: collect an earlier result (Collect per issue / CollectList / CollectMap / Sanitize*AndCollect), force GC (empties the pools), inject dirty recycled objects of every reachable shape into one or all of the seven pools, run a call whose user callback panics (deferred releases run mid-execution); i18n (en, es) installed as global formatter; non-trivial = a call executed after an earlier call that set context values / a formatter / produced issues, after a panicking call, or after a dirty injection; distinct = FNV-1a of the case JSON",
		"reference = the same call on freshly cleared pools (computed first); results not yet handed back stay as they were while later calls run; after every call the complete observable result - every issue field (code, path, type, message, params deep, value, error text), $first / key set, destination, and the ctx.Get values seen by its callbacks - must equal the reference",
		"dirty objects are limited to states reachable through zog's own API (PathBuilder element 0 stays empty); collected issues are never inspected afterwards")
	defer h.Finish()
	hh.Sub(h, "histories", h.N(3000, 4000), func(rt *rapid.T) c07Case { return genC07(rt, h.Thorough()) }, propC07)
}
