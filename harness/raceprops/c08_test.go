package raceprops

import (
	"fmt"
	"reflect"
	"sort"
	"strings"
	"sync"
	"sync/atomic"
	"testing"

	z "github.com/Oudwins/zog"
	"github.com/Oudwins/zog/conf"
	"github.com/Oudwins/zog/i18n"
	"github.com/Oudwins/zog/i18n/en"
	"github.com/Oudwins/zog/i18n/es"
	"github.com/Oudwins/zog/parsers/zjson"
	"pgregory.net/rapid"

	"verifharness/hh"
	"verifharness/model"
)

// C08: schemas are safe to share between goroutines. This package is built
// with -race: the race detector's report is part of the oracle (the driver
// turns a report into a VIOLATION), per-call result comparison is the other part.

type c08Schema struct {
	Root   *model.Node `json:"root"`
	Mode   string      `json:"mode"`
	Inputs []model.Val `json:"inputs"`
	// JSON[i] != "": input i is this document, handed over through zjson.Decode (struct roots, parse only)
	JSON []string `json:"json,omitempty"`
}

type c08Step struct {
	S       int  `json:"s"`
	I       int  `json:"i"`
	Collect bool `json:"collect,omitempty"`
	// Sanitize: with Collect: hand the result back through Sanitize{Map,List}AndCollect; the messages returned must be
	// the ones the result carried
	Sanitize bool   `json:"sanitize,omitempty"`
	Fmt      string `json:"fmt,omitempty"` // WithIssueFormatter stamping this marker
	// Lang: the case installs i18n (en default, es) and this call names its language through the context
	// ("" none, "en", "es", "fr" = not registered: default language)
	Lang string `json:"lang,omitempty"`
}

type c08Case struct {
	Schemas []c08Schema `json:"schemas"`
	Plans   [][]c08Step `json:"plans"`  // one plan per goroutine
	Rounds  int         `json:"rounds"` // each goroutine repeats its plan this many times
}

func observe(res *model.Result) string {
	var iss []string
	for _, is := range res.All() {
		iss = append(iss, fmt.Sprintf("%s|%s|%s|%s|%d", is.Path, is.Code, is.Dtype, is.Message, len(is.Params)))
	}
	sort.Strings(iss)
	return fmt.Sprintf("nil=%v issues=%v dest=%s panic=%v", res.NoIssues(), iss, model.CanonJSON(res.Dest.Elem()), res.Panic)
}

type builtSchema struct {
	schema  z.ZogSchema
	typ     reflect.Type
	env     *model.Env
	mode    string
	inputs  []model.Val
	json    []string
	specIss []string
	cold    bool // the next runs start on empty object pools (only set for the sequential reference runs after the workload)
}

func (b *builtSchema) run(i int, fmtMarker string, lang ...string) *model.Result {
	dest := reflect.New(b.typ)
	var in any
	switch {
	case b.mode == "validate":
		model.SetFromVal(dest.Elem(), b.inputs[i])
	case i < len(b.json) && b.json[i] != "":
		in = zjson.Decode(strings.NewReader(b.json[i])) // a fresh reader per call
	default:
		in = b.inputs[i].Go() // a fresh input value per call: inputs are the caller's own data
	}
	x := model.Exec{Mode: b.mode, Formatter: fmtMarker, Cold: b.cold}
	if len(lang) > 0 && lang[0] != "" {
		x.CtxVals = []model.KV{{K: i18n.LangKey, V: model.Str(lang[0])}}
	}
	return model.Run(b.schema, b.env, x, in, dest)
}

func propC08(c c08Case) hh.Verdict {
	for _, plan := range c.Plans {
		for _, st := range plan {
			if st.Lang != "" {
				// one process-wide installation, as an application does at start-up; calls then differ in the language they name
				saved := conf.IssueFormatter
				defer func() { conf.IssueFormatter = saved }()
				i18n.SetLanguagesErrsMap(map[string]i18n.LangMap{"en": en.Map, "es": es.Map}, "en")
				goto installed
			}
		}
	}
installed:
	bs := make([]*builtSchema, len(c.Schemas))
	for i, s := range c.Schemas {
		s.Root.Number()
		env := &model.Env{Silent: true}
		sch, typ := model.Build(s.Root, env)
		b := &builtSchema{schema: sch, typ: typ, env: env, mode: s.Mode, inputs: s.Inputs, json: s.JSON}
		// independent expectation for the issues: the executable specification (no zog code involved,
		// so state that zog initialises lazily is still cold when the goroutines start)
		for k := range s.Inputs {
			cs := model.Case{Root: s.Root, Input: s.Inputs[k], Exec: model.Exec{Mode: s.Mode}}
			dest := reflect.New(typ)
			var in any
			if s.Mode == "validate" {
				model.SetFromVal(dest.Elem(), cs.Input)
			} else {
				in = cs.Input.Go()
			}
			spec := model.Spec(s.Root, model.SpecCfg{Mode: s.Mode}, in, model.DeepCopy(dest.Elem()))
			if spec.Unknown != "" || spec.PostFailed || (k < len(s.JSON) && s.JSON[k] != "") {
				b.specIss = append(b.specIss, "?")
			} else {
				b.specIss = append(b.specIss, fmt.Sprint(spec.Issues))
			}
		}
		bs[i] = b
	}
	type obsKey struct {
		s, i int
		fmt  string
	}
	var mu sync.Mutex
	var firstErr string
	seen := map[obsKey]string{} // first concurrent observation per (schema, input)
	var wg sync.WaitGroup
	start := make(chan struct{})
	for g, plan := range c.Plans {
		wg.Add(1)
		go func(g int, plan []c08Step) {
			defer wg.Done()
			<-start
			for r := 0; r < c.Rounds; r++ {
				for k, st := range plan {
					b := bs[st.S]
					res := b.run(st.I, st.Fmt, st.Lang)
					got := observe(res)
					issues := fmt.Sprint(res.Norm(false))
					stale := ""
					if st.Fmt != "" {
						for _, is := range res.All() {
							if (is.Code == "invalid_json" || is.Code == "coerce" || is.Code == "required") && is.Message != st.Fmt && !strings.HasPrefix(is.Message, "bad value") && is.Message != "nope" {
								stale = fmt.Sprintf("issue %s at %q carries message %q, this call's formatter stamps %q", is.Code, is.Path, is.Message, st.Fmt)
							}
						}
					}
					mu.Lock()
					prev, ok := seen[obsKey{st.S, st.I, st.Fmt + "|" + st.Lang}]
					if !ok {
						seen[obsKey{st.S, st.I, st.Fmt + "|" + st.Lang}] = got
						prev = got
					}
					bad := ""
					switch {
					case res.Panic != nil:
						bad = fmt.Sprintf("panicked: %v", res.Panic)
					case stale != "":
						bad = stale
					case prev != got:
						bad = fmt.Sprintf("returned\n  %s\nwhile another concurrent call of the same schema and input returned\n  %s", got, prev)
					case b.specIss[st.I] != "?" && b.specIss[st.I] != issues:
						bad = fmt.Sprintf("returned issues\n  %s\nbut the specification of this call gives\n  %s", issues, b.specIss[st.I])
					}
					if bad != "" && firstErr == "" {
						firstErr = fmt.Sprintf("goroutine %d round %d step %d: schema #%d input #%d [%s] %s", g, r, k, st.S, st.I, b.mode, bad)
					}
					mu.Unlock()
					if bad != "" {
						return
					}
					if st.Collect && st.Sanitize {
						// what the caller is entitled to read: the messages as they stand in its own result
						var want, have string
						if res.IsMap {
							w := map[string][]string{}
							for k, l := range res.Map {
								for _, is := range l {
									w[k] = append(w[k], is.Message)
								}
							}
							want = fmt.Sprint(w)
							have = fmt.Sprint(map[string][]string(z.Issues.SanitizeMapAndCollect(res.Map)))
						} else {
							var w []string
							for _, is := range res.List {
								w = append(w, is.Message)
							}
							want = fmt.Sprint(w)
							have = fmt.Sprint([]string(z.Issues.SanitizeListAndCollect(res.List)))
						}
						if want != have {
							mu.Lock()
							if firstErr == "" {
								firstErr = fmt.Sprintf("goroutine %d round %d step %d: schema #%d input #%d [%s]: the Sanitize...AndCollect helper returned\n  %s\nbut the messages of this call's own result were\n  %s", g, r, k, st.S, st.I, b.mode, have, want)
							}
							mu.Unlock()
							return
						}
					} else if st.Collect {
						if res.IsMap {
							z.Issues.CollectMap(res.Map)
						} else {
							z.Issues.CollectList(res.List)
						}
					}
				}
			}
		}(g, plan)
	}
	close(start)
	wg.Wait()
	if firstErr != "" {
		return hh.Fail("%s", firstErr)
	}
	// every concurrent result must also equal what the call returns running alone (afterwards, sequentially)
	for k, got := range seen {
		f, l, _ := strings.Cut(k.fmt, "|")
		bs[k.s].cold = true // alone means alone: nothing any other call left behind in the object pools
		res := bs[k.s].run(k.i, f, l)
		if alone := observe(res); alone != got {
			return hh.Fail("schema #%d input #%d [%s]: concurrent calls returned\n  %s\nrunning alone it returns\n  %s", k.s, k.i, bs[k.s].mode, got, alone)
		}
	}
	users := map[int]map[int]bool{}
	for g, plan := range c.Plans {
		for _, st := range plan {
			if users[st.S] == nil {
				users[st.S] = map[int]bool{}
			}
			users[st.S][g] = true
		}
	}
	shared := 0
	for _, u := range users {
		if len(u) >= 2 {
			shared++
		}
	}
	v := hh.Verdict{Nontrivial: shared > 0, Classes: []string{fmt.Sprintf("shared-schemas:%d", min(shared, 8)), fmt.Sprintf("goroutines:%d", len(c.Plans))}}
	for _, s := range c.Schemas {
		failing := false
		s.Root.Walk(func(n *model.Node) {
			for _, p := range n.Posts {
				failing = failing || p.Behaviour == "error"
			}
		})
		if failing {
			v.Classes = append(v.Classes, "schema-with-failing-posttransform")
			break
		}
	}
	return v
}

func genC08(rt *rapid.T, thorough bool) c08Case {
	var c c08Case
	ns := rapid.IntRange(3, 8).Draw(rt, "nschemas")
	for i := 0; i < ns; i++ {
		mode := rapid.SampledFrom([]string{"parse", "validate"}).Draw(rt, "mode")
		cfg := model.DefaultCfg(mode)
		cfg.MaxDepth = 2
		cfg.PPost, cfg.PCatch, cfg.PVary, cfg.PAbsent, cfg.PJunk, cfg.PTestSat, cfg.POpts = 0.15, 0.3, 0.4, 0.15, 0.08, 0.6, 0.15
		cfg.NoDataTests = true
		cfg.PLong = rapid.SampledFrom([]float64{0, 0.05, 0.2}).Draw(rt, "plong") // long slices: growth paths of caches and buffers
		failingPost := rapid.IntRange(0, 3).Draw(rt, "failingpost") == 0
		if failingPost {
			// a schema whose only possible issue is the error of ONE PostTransform (no tests, nothing required, valid
			// inputs): its result is determined, whatever the field order; the issue is built from the contexts
			// the other goroutines keep recycling
			cfg.PPost, cfg.PCatch, cfg.PReq, cfg.PDefault, cfg.PJunk, cfg.PAbsent, cfg.PPre, cfg.PCoercer = 0, 0, 0, 0, 0, 0.1, 0, 0
			cfg.MaxTests, cfg.NoFuncTests, cfg.NoCustom, cfg.PLong = 0, true, true, 0
			cfg.RootKinds = []string{model.KStruct, model.KStruct, model.KSlice}
		}
		g := model.NewGen(rt, cfg)
		root := g.GenNode(cfg.MaxDepth, true)
		nestedDefault := !failingPost && rapid.IntRange(0, 4).Draw(rt, "nesteddefault") == 0
		if nestedDefault {
			// a list of lists whose Default is applied to every call that brings no list, with PostTransforms that
			// write to the elements they are given: each call works on its own copy of the default, all the way down
			leaf := &model.Node{Kind: model.KString, Posts: []model.PostSpec{{Behaviour: "mutate"}}}
			if rapid.Bool().Draw(rt, "ndint") {
				leaf = &model.Node{Kind: model.KInt, Posts: []model.PostSpec{{Behaviour: "mutate"}}}
			}
			mk := func(i int) model.Val {
				if leaf.Kind == model.KInt {
					return model.Int(i + 1)
				}
				return model.Str(fmt.Sprintf("d%d", i))
			}
			def := model.List(model.List(mk(0), mk(1)), model.List(mk(2)), model.List(mk(3), mk(4), mk(5)))
			inner := &model.Node{Kind: model.KSlice, Elem: leaf}
			if rapid.Bool().Draw(rt, "ndrev") {
				inner.Posts = []model.PostSpec{{Behaviour: "mutate"}}
			}
			lists := &model.Node{Kind: model.KSlice, Elem: inner, Def: &def}
			if rapid.Bool().Draw(rt, "ndfield") {
				root = &model.Node{Kind: model.KStruct, Fields: []model.Field{{Key: "grants", Node: lists}, {Key: "name", Node: &model.Node{Kind: model.KString}}}}
			} else {
				root = lists
			}
		}
		if failingPost {
			var nodes []*model.Node
			root.Walk(func(n *model.Node) {
				if n.Kind != model.KPre {
					nodes = append(nodes, n)
				}
			})
			at := nodes[rapid.IntRange(0, len(nodes)-1).Draw(rt, "postat")]
			at.Posts = []model.PostSpec{{Behaviour: "error"}}
		}
		root.Number()
		s := c08Schema{Root: root, Mode: mode}
		for k, n := 0, rapid.IntRange(2, 5).Draw(rt, "ninputs"); k < n; k++ {
			if nestedDefault {
				// no list at all (the Default applies), or a list of the caller's own
				in := model.Val{T: "list"}
				if k%3 == 2 {
					in = model.List(model.List(model.Str("7")))
					if root.Kind == model.KSlice && root.Elem.Elem.Kind == model.KInt || root.Kind == model.KStruct && root.Fields[0].Node.Elem.Elem.Kind == model.KInt {
						in = model.List(model.List(model.Int(7)))
					}
				}
				if root.Kind == model.KStruct {
					in = model.Map(model.KV{K: "grants", V: in}, model.KV{K: "name", V: model.Str("n")})
				}
				s.Inputs = append(s.Inputs, in)
				continue
			}
			typed := g.GenTyped(root)
			if mode == "parse" {
				in, _ := g.Render(root, typed, "root")
				s.Inputs = append(s.Inputs, in)
			} else {
				s.Inputs = append(s.Inputs, typed)
			}
		}
		if failingPost {
			for _, in := range s.Inputs {
				if !model.OnlyPostFailure(root, mode, in) {
					// something else can produce an issue for this input: which PostTransforms still run would depend on the visit order
					root.Walk(func(n *model.Node) { n.Posts = nil })
					break
				}
			}
		}
		if mode == "parse" && root.Kind == model.KStruct && !failingPost && rapid.IntRange(0, 2).Draw(rt, "json") == 0 {
			// the same inputs as JSON documents through zjson, plus undecodable ones
			s.JSON = make([]string, len(s.Inputs))
			for k := range s.Inputs {
				var sb strings.Builder
				if err := model.JSONOf(root, s.Inputs[k], &sb); err == nil && rapid.IntRange(0, 3).Draw(rt, "jkeep") > 0 {
					s.JSON[k] = sb.String()
				} else {
					s.JSON[k] = rapid.SampledFrom([]string{"null", "[1]", `{"a":`, "{}", `"s"`}).Draw(rt, "jbad")
				}
			}
		}
		c.Schemas = append(c.Schemas, s)
	}
	ng := rapid.SampledFrom([]int{8, 16, 16, 24}).Draw(rt, "goroutines")
	langs := []string{""}
	if rapid.IntRange(0, 2).Draw(rt, "i18n") == 0 {
		langs = []string{"", "es", "en", "es", "fr"} // this workload runs with i18n installed; calls name different languages
	}
	for g := 0; g < ng; g++ {
		var plan []c08Step
		for k, n := 0, rapid.IntRange(5, 25).Draw(rt, "plen"); k < n; k++ {
			s := rapid.IntRange(0, ns-1).Draw(rt, "s")
			plan = append(plan, c08Step{S: s, I: rapid.IntRange(0, len(c.Schemas[s].Inputs)-1).Draw(rt, "i"), Collect: rapid.IntRange(0, 3).Draw(rt, "collect") == 0, Sanitize: rapid.Bool().Draw(rt, "sanitize"),
				Fmt: rapid.SampledFrom([]string{"", "", "FMT-A", "FMT-B"}).Draw(rt, "fmt"), Lang: rapid.SampledFrom(langs).Draw(rt, "lang")})
		}
		c.Plans = append(c.Plans, plan)
	}
	c.Rounds = 5
	if thorough {
		c.Rounds = 20
	}
	return c
}

var workloadCounter atomic.Int64

func growLists(v *model.Val, n int) {
	if len(v.L) >= 17 {
		for i := 0; len(v.L) < n; i++ {
			v.L = append(v.L, v.L[i])
		}
		if len(v.L) > n {
			v.L = v.L[:n] // long lists have exactly the workload's length (bounded cost under the race detector)
		}
	}
	for i := range v.L {
		growLists(&v.L[i], n)
	}
	for i := range v.M {
		growLists(&v.M[i].V, n)
	}
}

// stripGatedPosts removes PostTransforms from schemas for which some input
// produces issues: which PostTransforms run is then visit-order dependent by
// the documented gating, so the result is not a function of the call alone.
func stripGatedPosts(c *c08Case) {
	for i := range c.Schemas {
		s := &c.Schemas[i]
		s.Root.Number()
		_, typ := model.Build(s.Root, &model.Env{Silent: true})
		issues := false
		for k := range s.Inputs {
			dest := reflect.New(typ)
			var in any
			if s.Mode == "validate" {
				model.SetFromVal(dest.Elem(), s.Inputs[k])
			} else {
				in = s.Inputs[k].Go()
			}
			// decided by the specification, without running zog (no warm-up of lazily initialised state)
			if spec := model.Spec(s.Root, model.SpecCfg{Mode: s.Mode}, in, model.DeepCopy(dest.Elem())); spec.Unknown != "" || (len(spec.Issues) > 0 && !(spec.PostFailed && len(spec.Issues) == 1)) || len(s.JSON) > 0 {
				issues = true
			}
		}
		if issues {
			s.Root.Walk(func(n *model.Node) { n.Posts = nil })
		}
	}
}

func TestC08(t *testing.T) {
	h := hh.Start(t, "C08",
		"cases = workloads: 3-8 shared schema objects (all kinds, Catch, own-destination PostTransforms, struct-level tests; a quarter of them test-free schemas with exactly one PostTransform that returns an error) with 2-5 inputs each; 8-32 goroutines start together and each runs a generated plan of 5-25 (schema, input, collect-own-result through Collect* or Sanitize*AndCollect?, per-call formatter?, language named in the context when the workload runs with i18n installed) steps for 6 (thorough 20) rounds against the SHARED schema objects with private inputs and destinations; binary built with -race; non-trivial = some schema object was used by >=2 goroutines in the workload; distinct = FNV-1a of the case JSON",
		"the goroutines start on COLD library state (expected issues come from the executable specification, not from a sequential warm-up run): every concurrent call must (a) report the issues the specification gives for it, (b) agree with every other concurrent call of the same schema and input, (c) equal what the same call returns running alone afterwards (issues incl. messages, destination); any report of the Go race detector during the run is a violation (detected by the driver from the process output). Lists marked long grow by 8 elements from workload to workload so that lazily grown shared state is extended while goroutines run",
		"random schedules only: the harness does not own the scheduler; a schedule-dependent failure is reported with the workload, not with a replayable interleaving",
		"PostTransforms are kept only on schemas none of whose inputs produce issues, or whose only issue is the error of their single failing PostTransform (otherwise their effect is visit-order dependent by the documented gating)")
	defer h.Finish()
	hh.Sub(h, "workloads", h.N(100, 300), func(rt *rapid.T) c08Case {
		c := genC08(rt, h.Thorough())
		stripGatedPosts(&c)
		return c
	}, propC08)
	_ = strings.Join
}
