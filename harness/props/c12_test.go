package props

import (
	"errors"
	"fmt"
	"reflect"
	"sort"
	"strings"
	"testing"

	z "github.com/Oudwins/zog"
	"pgregory.net/rapid"

	"verifharness/hh"
	"verifharness/model"
)

// C12: user callbacks run at the documented times with the node's own value.
// Spec-free: invariants over the totally ordered event log of one execution.

type occurrence struct {
	addr uintptr
	path string
	val  string // canonical value of the destination after the call
}

// occurrences walks the final destination along the schema and records, for
// every node id, the address and issue path of each place the node governs.
// canonicalIDs maps every node id to the id of the node whose callbacks actually exist: for a schema object
// shared between several places (ShareID) that is the first place it was built for (identical subtrees have
// identical preorder shapes, so ids differ by a constant offset).
func canonicalIDs(root *model.Node) map[int]int {
	canon := map[int]int{}
	first := map[int]int{}
	var rec func(n *model.Node, delta int)
	rec = func(n *model.Node, delta int) {
		if n.ShareID != 0 && delta == 0 {
			if f, ok := first[n.ShareID]; ok {
				delta = f - n.ID
			} else {
				first[n.ShareID] = n.ID
			}
		}
		canon[n.ID] = n.ID + delta
		if n.Elem != nil {
			rec(n.Elem, delta)
		}
		for _, f := range n.Fields {
			rec(f.Node, delta)
		}
	}
	rec(root, 0)
	return canon
}

var c12Canon map[int]int // set per evaluation (single goroutine)

func occurrences(n *model.Node, v reflect.Value, path string, out map[int][]occurrence) {
	id := n.ID
	if c, ok := c12Canon[id]; ok {
		id = c
	}
	out[id] = append(out[id], occurrence{addr: v.Addr().Pointer(), path: path, val: model.CanonJSON(v)})
	switch n.Kind {
	case model.KStruct:
		for _, f := range n.Fields {
			key := f.Key
			if t, ok := f.Tags["zog"]; ok {
				key = t
			}
			p := key
			if path != "" {
				p = path + "." + key
			}
			occurrences(f.Node, v.FieldByName(f.GoName()), p, out)
		}
	case model.KSlice:
		for i := 0; i < v.Len(); i++ {
			occurrences(n.Elem, v.Index(i), fmt.Sprintf("%s[%d]", path, i), out)
		}
	case model.KPtr:
		if !v.IsNil() {
			occurrences(n.Elem, v.Elem(), path, out)
		}
	case model.KPre:
		occurrences(n.Elem, v, path, out)
	}
}

var c12Keys = []string{"k1", "k2", "k3"}

func propC12(c model.Case) hh.Verdict {
	c.Root.Number()
	env := &model.Env{WatchKeys: c12Keys}
	schema, typ := model.Build(c.Root, env)
	var in any
	if c.Exec.Mode == "parse" {
		in = c.Input.Go()
	}
	dest := newDest(typ, c, false)
	before := model.DeepCopy(dest.Elem())
	exec := c.Exec
	exec.LogIssues = true
	res := model.Run(schema, env, exec, in, dest)
	if res.Panic != nil {
		return hh.Fail("panic (callbacks of the harness never panic): %v\n%s", res.Panic, firstLines(res.Stack, 12))
	}
	nodes := map[int]*model.Node{}
	c.Root.Walk(func(n *model.Node) { nodes[n.ID] = n })
	c12Canon = canonicalIDs(c.Root)
	occ := map[int][]occurrence{}
	occurrences(c.Root, dest.Elem(), "", occ)
	anyMutate := false
	c.Root.Walk(func(n *model.Node) {
		for _, p := range n.Posts {
			anyMutate = anyMutate || p.Behaviour == "mutate"
		}
		anyMutate = anyMutate || n.Kind == model.KPre // a Preprocess rewrites the value before the inner tests, and Validate writes it back
	})
	wantCtx := map[string]string{}
	for _, k := range c12Keys {
		wantCtx[k] = "<nil>"
	}
	for _, kv := range c.Exec.CtxVals {
		wantCtx[kv.K] = fmt.Sprintf("%v", kv.V.Go())
	}
	type grp struct {
		node int
		addr uintptr
	}
	postSeq := map[grp][]model.Event{}
	var postOrder []grp
	issueSeen := false
	nested, postErr, preFail, caughtWithPosts := false, false, false, false
	for i, ev := range res.Log {
		n := nodes[ev.Node]
		switch ev.Kind {
		case "issue":
			issueSeen = true
			continue
		case "coerce":
			continue
		}
		for k, want := range wantCtx {
			if ev.Ctx[k] != want {
				return hh.Fail("event %d (%s n%d): ctx.Get(%q) = %s, this call passed %s", i, ev.Kind, ev.Node, k, ev.Ctx[k], want)
			}
		}
		switch ev.Kind {
		case "pre":
			if c.Exec.Mode == "validate" {
				// Validate: the function receives a non-nil pointer to the node's own value
				ok := !ev.ArgNil && strings.HasPrefix(ev.ArgType, "*")
				for _, o := range occ[ev.Node] {
					ok = ok && true
					_ = o
				}
				found := false
				for _, o := range occ[ev.Node] {
					if o.addr == ev.ArgPtr {
						found = true
					}
				}
				if !ok || !found {
					return hh.Fail("event %d: Preprocess function of n%d received %s (nil=%v, %#x) in Validate, expected a pointer to the node's value", i, ev.Node, ev.ArgType, ev.ArgNil, ev.ArgPtr)
				}
			}
			continue
		case "test":
			if model.IsPrimitive(n.Kind) {
				wantT := model.GoType(n.Kind).String()
				if ev.ArgNil || ev.ArgType != wantT {
					return hh.Fail("event %d: TestFunc of %s node n%d received %s (nil=%v), expected the value itself (%s)", i, n.Kind, ev.Node, ev.ArgType, ev.ArgNil, wantT)
				}
				// ... and it is the node's own value: one of the values its destinations hold (checked when nothing
				// can change a value after its tests ran: no mutating PostTransform anywhere, no Catch on the node)
				if !anyMutate && n.Catch == nil {
					own := false
					for _, o := range occ[ev.Node] {
						own = own || o.val == ev.ArgVal
					}
					if !own {
						return hh.Fail("event %d: TestFunc of %s node n%d received the value %s, which none of its destinations holds", i, n.Kind, ev.Node, ev.ArgVal)
					}
				}
				continue
			}
		case "post":
			if issueSeen {
				return hh.Fail("event %d: PostTransform #%d of n%d ran although an issue had already been recorded", i, ev.Idx, ev.Node)
			}
		}
		// struct / slice tests, custom functions, PostTransforms: a non-nil pointer to the node's destination
		if ev.ArgNil || !strings.HasPrefix(ev.ArgType, "*") {
			return hh.Fail("event %d: %s callback of %s node n%d received %s (nil=%v), expected a non-nil pointer to its destination [%s]", i, ev.Kind, n.Kind, ev.Node, ev.ArgType, ev.ArgNil, c.Exec.Mode)
		}
		found := false
		for _, o := range occ[ev.Node] {
			if o.addr == ev.ArgPtr {
				found = true
				if strings.ContainsAny(o.path, "[") || hasPtrAncestor(c.Root, ev.Node) {
					nested = true
				}
			}
		}
		if !found {
			return hh.Fail("event %d: %s callback of %s node n%d received pointer %#x which is not the address of any destination governed by that node [%s]", i, ev.Kind, n.Kind, ev.Node, ev.ArgPtr, c.Exec.Mode)
		}
		if ev.Kind == "post" {
			g := grp{ev.Node, ev.ArgPtr}
			if _, ok := postSeq[g]; !ok {
				postOrder = append(postOrder, g)
			}
			postSeq[g] = append(postSeq[g], ev)
		}
	}
	all := res.All()
	for _, is := range all {
		if is.Code == "sibling_noise" || (is.Err != nil && is.Err.Error() == "sibling noise") {
			return hh.Fail("a test / PostTransform that was added to a SIBLING schema (derived from the same operand after this schema was built) ran in this schema's execution: issue %s at %q", is.Code, is.Path)
		}
	}
	for _, g := range postOrder {
		n := nodes[g.node]
		seq := postSeq[g]
		for k, ev := range seq {
			if ev.Idx != k {
				return hh.Fail("PostTransforms of n%d ran out of declaration order or more than once per visit: saw #%d at position %d", g.node, ev.Idx, k)
			}
			if ev.Ret != "" {
				postErr = true
				if k != len(seq)-1 {
					return hh.Fail("PostTransform #%d of n%d returned an error but #%d still ran", ev.Idx, g.node, seq[k+1].Idx)
				}
				want := env.PostErrs[[2]int{g.node, ev.Idx}]
				path := ""
				for _, o := range occ[g.node] {
					if o.addr == g.addr {
						path = o.path
					}
				}
				ok := false
				for _, is := range all {
					if zi, isIssue := want.(*z.ZogIssue); isIssue {
						if is == zi || errors.Is(is.Err, zi) {
							ok = true
						}
						// "a returned ZogIssue is reported as well": as its author wrote it, in both modes
						if is == zi {
							wantPath := map[string]string{"issue": "post.path", "issue-nopath": ""}[nodes[g.node].Posts[ev.Idx].Behaviour]
							if is.Path != wantPath {
								return hh.Fail("PostTransform #%d of n%d returned a ZogIssue with Path %q; it is reported with Path %q [%s]", ev.Idx, g.node, wantPath, is.Path, c.Exec.Mode)
							}
						}
					} else if errors.Is(is.Err, want) && is.Path == path {
						ok = true
					}
				}
				if !ok {
					return hh.Fail("PostTransform #%d of n%d returned %q but no issue wraps it at path %q; issues: %s", ev.Idx, g.node, ev.Ret, path, fmtIss(res.Norm(false)))
				}
			}
		}
		if res.NoIssues() && len(seq) != len(n.Posts) {
			return hh.Fail("execution succeeded but only %d of %d PostTransforms of n%d ran for one visit", len(seq), len(n.Posts), g.node)
		}
	}
	if res.NoIssues() {
		// struct schemas are never absent: each occurrence must have run all its PostTransforms
		for id, n := range nodes {
			if n.Kind != model.KStruct || len(n.Posts) == 0 || c12Canon[id] != id {
				continue
			}
			for _, o := range occ[id] {
				if len(postSeq[grp{id, o.addr}]) != len(n.Posts) {
					return hh.Fail("execution succeeded but the PostTransforms of struct n%d at %q did not all run", id, o.path)
				}
			}
		}
	}
	// Validate: the Preprocess function of every place its node governs was called, once, with that place's address
	if c.Exec.Mode == "validate" {
		for id, n := range nodes {
			if n.Kind != model.KPre || c12Canon[id] != id {
				continue
			}
			for _, o := range occ[id] {
				calls := 0
				for _, ev := range res.Log {
					if ev.Kind == "pre" && ev.Node == id && ev.ArgPtr == o.addr {
						calls++
					}
				}
				if calls != 1 {
					return hh.Fail("Preprocess n%d governs the value at %q, but its function was called %d times with that value's address (expected once) [validate]", id, o.path, calls)
				}
			}
		}
	}
	// "at the documented times": tests and custom functions are called once per visit of a node that has a value at that
	// moment (its input, its Default, what a Preprocess function returned), not at all where the value is absent, a
	// coercion failed or a Preprocess function refused - whatever other issues the execution has
	if spec := model.Spec(c.Root, model.SpecCfg{Mode: c.Exec.Mode}, in, model.DeepCopy(before)); spec.Unknown == "" {
		ran, want := map[int]int{}, map[int]int{}
		for _, ev := range res.Log {
			switch ev.Kind {
			case "test":
				ran[c12Canon[ev.Node]*1000+ev.Idx]++
			case "custom":
				ran[c12Canon[ev.Node]*1000+999]++
			}
		}
		for k, v := range spec.Ran {
			want[c12Canon[k/1000]*1000+k%1000] += v
		}
		var keys []int
		for k := range want {
			keys = append(keys, k)
		}
		for k := range ran {
			if _, ok := want[k]; !ok {
				keys = append(keys, k)
			}
		}
		sort.Ints(keys)
		for _, k := range keys {
			if ran[k] != want[k] {
				return hh.Fail("callback #%d of n%d was called %d times, the documented pipeline calls it %d times [%s]", k%1000, k/1000, ran[k], want[k], c.Exec.Mode)
			}
		}
	}
	// a node whose Catch value was used is a node like any other afterwards: on success its PostTransforms ran
	// (the documentation: whatever triggers the catch, execution continues with the PostTransforms)
	if res.NoIssues() {
		if spec := model.Spec(c.Root, model.SpecCfg{Mode: c.Exec.Mode}, in, before); spec.Unknown == "" {
			for _, co := range spec.Catches {
				n := nodes[co.Node]
				if !co.Caught || n == nil || len(n.Posts) == 0 {
					continue
				}
				for _, o := range occ[co.Node] {
					if o.path != co.Path {
						continue
					}
					if ran := len(postSeq[grp{c12Canon[co.Node], o.addr}]); ran != len(n.Posts) {
						return hh.Fail("n%d at %q used its Catch value and the execution succeeded, but %d of its %d PostTransforms ran", co.Node, co.Path, ran, len(n.Posts))
					}
					caughtWithPosts = true
				}
			}
		}
	}
	// Preprocess: an error becomes an issue and the wrapped schema is skipped
	for id, n := range nodes {
		if n.Kind != model.KPre || (n.PreFn != "error" && n.PreFn != "verror") {
			continue
		}
		calls := 0
		inner := map[int]bool{}
		n.Elem.Walk(func(x *model.Node) { inner[x.ID] = true })
		for _, ev := range res.Log {
			if ev.Kind == "pre" && ev.Node == id {
				calls++
			}
			if inner[ev.Node] && ev.Kind != "issue" {
				return hh.Fail("Preprocess n%d always fails, yet a callback of its wrapped schema (n%d %s) ran", id, ev.Node, ev.Kind)
			}
		}
		refused := 0
		for _, is := range all {
			if (is.Err != nil && strings.Contains(is.Err.Error(), "preprocess refused")) || strings.Contains(is.Message, "preprocess refused") {
				refused++
			}
		}
		if calls > 0 {
			preFail = true
		}
		if refused < calls {
			return hh.Fail("Preprocess n%d returned an error %d times but only %d issues wrap it", id, calls, refused)
		}
	}
	// every Preprocess type mismatch / error the input implies must be reported, at its path
	if c.Exec.Mode == "parse" {
		plain := model.RoundTrip(*c.Root)
		plain.Walk(func(n *model.Node) { n.Posts = nil })
		plain.Number()
		if spec := model.Spec(&plain, model.SpecCfg{Mode: "parse"}, in, reflect.New(typ).Elem()); spec.Unknown == "" {
			want := map[string]int{}
			for _, d := range spec.Detailed {
				if d.Node.Kind == model.KPre {
					want[d.Path]++ // which code such an issue carries is not part of the statement
				}
			}
			got := map[string]int{}
			for _, is := range all {
				if is.Err != nil && strings.Contains(is.Err.Error(), "preprocess") {
					got[is.Path]++
				}
			}
			for k, n := range want {
				if got[k] != n {
					preFail = true
					return hh.Fail("the input implies %d Preprocess issue(s) (type mismatch or function error) at %q but %d were reported there; all issues: %s", n, k, got[k], fmtIss(res.Norm(false)))
				}
				preFail = true
			}
		}
	}
	v := hh.Verdict{Classes: append(shapeClasses(c.Root), "mode:"+c.Exec.Mode)}
	if nested {
		v.Classes = append(v.Classes, "callback-under-slice-or-ptr")
	}
	if postErr {
		v.Classes = append(v.Classes, "post-error")
	}
	if preFail {
		v.Classes = append(v.Classes, "preprocess-error")
	}
	if caughtWithPosts {
		v.Classes = append(v.Classes, "catch-used-then-posttransforms")
	}
	if len(c.Exec.CtxVals) > 0 {
		v.Classes = append(v.Classes, "ctx-values")
	}
	v.Nontrivial = nested || postErr || preFail
	return v
}

func hasPtrAncestor(root *model.Node, id int) bool {
	found := false
	var rec func(n *model.Node, under bool)
	rec = func(n *model.Node, under bool) {
		if n.ID == id && under {
			found = true
		}
		u := under || n.Kind == model.KPtr || n.Kind == model.KSlice
		if n.Elem != nil {
			rec(n.Elem, u)
		}
		for _, f := range n.Fields {
			rec(f.Node, u)
		}
	}
	rec(root, false)
	return found
}

func firstLines(s string, k int) string {
	l := strings.Split(s, "\n")
	if len(l) > k {
		l = l[:k]
	}
	return strings.Join(l, "\n")
}

// addRecorders puts a passing recorder test on every node that can carry tests.
func addRecorders(root *model.Node) {
	root.Walk(func(n *model.Node) {
		switch n.Kind {
		case model.KPtr, model.KCustom, model.KPre:
			return
		}
		n.Tests = append([]model.TestSpec{{Name: "func", Str: "pass", Opts: model.Opts{Code: "rec"}}}, n.Tests...)
	})
}

func TestC12(t *testing.T) {
	h := hh.Start(t, "C12",
		"cases = schemas with recorder callbacks (TestFunc on every node kind, custom schema functions, PostTransforms that record / mutate their destination / return an error / return an error wrapping or joining a ZogIssue / return a ZogIssue, tests with IssueCode / IssuePath / Params options, Preprocess functions that succeed, fail or meet the wrong input type) at every placement; plus an enumerated sub-check over schemas of user-defined primitive types (StringSchema[T], NumberSchema[T], BoolSchema[T]) at the root, as a struct field and as a slice element, both modes, random WithCtxValue sets; one totally ordered event log per execution (callbacks and issue creations); non-trivial = a pointer-receiving callback ran below a slice or pointer, or a PostTransform returned an error, or a Preprocess failed; distinct = FNV-1a of the case JSON",
		"invariants over the log: primitive TestFuncs get the value itself, every other callback a non-nil pointer equal to the address of a destination its node governs (computed by reflection after the call); ctx.Get returns exactly this call's WithCtxValue values and nil for other keys; per visit PostTransforms run in declaration order, at most once, stop at the first error, never after an issue was recorded, all of them when the execution succeeds (also at a node that used its Catch value: the specification names those occurrences); a returned error is wrapped by an issue at the node's path (a returned ZogIssue is reported); a failing Preprocess yields an issue and silences the wrapped schema",
		"tests in these cases carry no Message option, so that every recorded issue passes through the execution formatter that logs it")
	defer h.Finish()
	hh.Enumerate(h, "named-type-callbacks", c12NamedCells, propC12Named)
	for _, mode := range []string{"parse", "validate"} {
		cfg := model.DefaultCfg(mode)
		cfg.PostBehaviours = []string{"record", "mutate", "record", "error", "issue", "mutate", "wrapped", "issue-nopath"}
		cfg.PPost, cfg.PPre, cfg.POpts, cfg.NoMsgOpts = 0.3, 0.1, 0.2, true
		cfg.PVary, cfg.PAbsent, cfg.PJunk, cfg.PTestSat, cfg.PClean = 0.2, 0.1, 0.04, 0.9, 0.4
		if h.Thorough() {
			cfg.MaxDepth, cfg.MaxFields, cfg.MaxElems = 4, 6, 5
		}
		gen := func(rt *rapid.T) model.Case {
			c := model.GenCase(rt, cfg)
			addRecorders(c.Root)
			for _, k := range rapid.SliceOfNDistinct(rapid.SampledFrom(c12Keys), 0, 3, rapid.ID[string]).Draw(rt, "ctxkeys") {
				c.Exec.CtxVals = append(c.Exec.CtxVals, model.KV{K: k, V: rapid.SampledFrom([]model.Val{model.Str("v-" + k), model.Int(7), model.Bool(true)}).Draw(rt, "ctxval")})
			}
			// defaults first, per-call values after them: a key may be passed more than once, the last one counts
			if len(c.Exec.CtxVals) > 0 && rapid.IntRange(0, 2).Draw(rt, "dupkey") == 0 {
				again := c.Exec.CtxVals[rapid.IntRange(0, len(c.Exec.CtxVals)-1).Draw(rt, "dupwhich")]
				again.V = rapid.SampledFrom([]model.Val{model.Str("later-" + again.K), model.Int(8), model.Bool(false)}).Draw(rt, "dupval")
				c.Exec.CtxVals = append(c.Exec.CtxVals, again)
			}
			return c
		}
		hh.Sub(h, mode, h.N(25000, 80000), gen, propC12)
		// ONE schema object at several places whose destination types differ in field order / tags
		mode := mode
		hh.Sub(h, "shared-"+mode, h.N(5000, 30000), func(rt *rapid.T) model.Case {
			scfg := model.DefaultCfg(mode)
			scfg.MaxDepth, scfg.NoCustom, scfg.POpts = 1, true, 0
			scfg.PostBehaviours = []string{"record", "mutate"}
			scfg.PPost, scfg.PVary, scfg.PAbsent, scfg.PJunk = 0.3, 0.3, 0.1, 0.03
			g := model.NewGen(rt, scfg)
			root := sharedRoot(rt, g)
			addRecorders(root)
			typed := g.GenTyped(root)
			c := model.Case{Root: root, Exec: model.Exec{Mode: mode}}
			if mode == "parse" {
				c.Input, _ = g.Render(root, typed, "root")
			} else {
				c.Input = typed
			}
			return c
		}, propC12)
	}
}
