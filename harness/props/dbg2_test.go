package props

import (
	"encoding/json"
	"fmt"
	"os"
	"testing"

	"verifharness/model"
)

func TestDbgReplay(t *testing.T) {
	p := os.Getenv("DBGCASE")
	if p == "" {
		t.Skip()
	}
	b, _ := os.ReadFile(p)
	var rf struct {
		Case c09Case `json:"case"`
	}
	json.Unmarshal(b, &rf)
	c := rf.Case.Variants[0]
	c.Root.Number()
	kp := map[int]string{}
	keyPaths(c.Root, "", kp)
	env := &model.Env{}
	schema, typ := model.Build(c.Root, env)
	for r := 0; r < 12; r++ {
		dest := newDest(typ, c, false)
		res := model.Run(schema, env, c.Exec, c.Input.Go(), dest)
		var ord []string
		for _, ev := range res.Log {
			if ev.Kind == "test" && ev.Idx == 0 {
				ord = append(ord, kp[ev.Node])
			}
		}
		fmt.Println(ord, res.Norm(false))
	}
}
