package props

import (
	"fmt"
	"sort"
	"strings"
	"testing"

	"pgregory.net/rapid"

	"verifharness/hh"
	"verifharness/model"
)

// C14: all input front ends are equivalent views of the same record.

type c14Case struct {
	Root    *model.Node `json:"root"`
	Logical model.Val   `json:"logical"`       // record keyed by schema key
	FEs     []string    `json:"fes,omitempty"` // front ends to render (empty = all)
}

func propC14(c c14Case) hh.Verdict {
	type obs struct {
		fe   string
		dest string
		ok   bool
		n    int
	}
	var seen []obs
	v := hh.Verdict{}
	fes := c.FEs
	if len(fes) == 0 {
		fes = model.AllFrontEnds
	}
	for _, fe := range fes {
		fc := feCase{Root: c.Root, Logical: c.Logical, FE: fe, Mode: "parse"}
		spec, res, exp, text, skip := runFE(fc, false)
		text = clip(text)
		if skip != "" {
			v.Classes = append(v.Classes, "fe-skip:"+fe+":"+skip)
			continue
		}
		if res.Panic != nil {
			return hh.Fail("[%s] panic: %v (input %s)", fe, res.Panic, text)
		}
		got := res.Norm(false)
		if !model.EqualIssSpec(got, spec.Issues) {
			return hh.Fail("[%s] issues differ from the record's specification: got %s want %s (input %s)", fe, fmtIss(got), fmtIss(spec.Issues), text)
		}
		o := obs{fe: fe, ok: len(got) == 0, n: len(got)}
		if o.ok && !spec.DestUnknown {
			o.dest = model.CanonJSON(res.Dest.Elem())
			if w := model.CanonJSON(exp); o.dest != w {
				return hh.Fail("[%s] destination differs from the record's specification: got %s want %s (input %s)", fe, o.dest, w, text)
			}
		}
		seen = append(seen, o)
		v.Classes = append(v.Classes, "fe:"+fe)
	}
	// cross comparison: every rendering that ran must agree with every other one
	for i := 1; i < len(seen); i++ {
		a, b := seen[0], seen[i]
		if a.ok != b.ok || a.n != b.n {
			return hh.Fail("front ends disagree: %s reports %d issues, %s reports %d", a.fe, a.n, b.fe, b.n)
		}
		if a.ok && a.dest != "" && b.dest != "" && a.dest != b.dest {
			return hh.Fail("front ends disagree on the destination: %s gives %s, %s gives %s", a.fe, a.dest, b.fe, b.dest)
		}
	}
	tagged, nested := false, false
	c.Root.Walk(func(n *model.Node) {
		for _, f := range n.Fields {
			if len(f.Tags) > 0 {
				tagged = true
			}
			if n != c.Root {
				nested = true
			}
		}
	})
	v.Classes = append(v.Classes, fmt.Sprintf("renderings:%d", len(seen)))
	v.Nontrivial = len(seen) >= 3 && (tagged || nested)
	sort.Strings(v.Classes)
	return v
}

func genC14(rt *rapid.T, h *hh.H, cfg model.GenCfg) c14Case {
	return genC14With(rt, cfg, h.Open("source-tag-below-depth-1"), h.Open("nested-struct-under-flat-source"))
}

// genC14With draws a record and a tagged schema for it; the two flags keep the case out of the reach of the two
// open findings of that name (KNOWN_FINDINGS.txt).
func genC14With(rt *rapid.T, cfg model.GenCfg, avoidNestedTags, avoidNestedFlat bool) c14Case {
	cfg.LogicalKeys, cfg.NoAltRepr, cfg.NoCustom = true, true, true
	cfg.RootKinds = []string{model.KStruct}
	cfg.TagKinds = []string{"json", "form", "query", "env"}
	cfg.PSourceTag = 0.35
	cfg.LeafKinds = []string{model.KString, model.KString, model.KInt, model.KInt64, model.KInt32, model.KFloat64, model.KFloat32, model.KBool, model.KTime}
	if avoidNestedTags {
		cfg.NoNestedSourceTags = true
	}
	if avoidNestedFlat && rapid.IntRange(0, 3).Draw(rt, "flatcase") > 0 {
		cfg.NoNestedStructs = true // 3 of 4 records are expressible in the flat sources
	}
	g := model.NewGen(rt, cfg)
	root := g.GenNode(cfg.MaxDepth, true)
	if rapid.IntRange(0, 5).Draw(rt, "ptrroot") == 0 {
		root = &model.Node{Kind: model.KPtr, Elem: root, Req: rapid.Bool().Draw(rt, "notnil")}
	}
	root.Number()
	typed := g.GenTyped(root)
	c := c14Case{Root: root}
	c.Logical, _ = g.Render(root, typed, "root")
	trimStrings(&c.Logical)
	nested := false
	top := root
	if top.Kind == model.KPtr {
		top = top.Elem
	}
	root.Walk(func(n *model.Node) {
		if n != top && n.Kind == model.KStruct {
			nested = true
		}
	})
	if nested && avoidNestedFlat {
		// open finding: flat sources are not rendered for records with nested structs (the finding is probed separately)
		c.FEs = []string{model.FEMap, model.FEJSON, model.FEHTTPJSON}
	}
	return c
}

// trimStrings removes edge white space from string leaves (the environment trims it: a documented difference).
func trimStrings(v *model.Val) {
	if v.T == "string" {
		v.S = strings.ToValidUTF8(v.S, "?") // JSON documents carry valid UTF-8 only
		if t := strings.TrimSpace(v.S); t != "" && t != v.S {
			v.S = t
		}
	}
	for i := range v.L {
		trimStrings(&v.L[i])
	}
	for i := range v.M {
		trimStrings(&v.M[i].V)
	}
}

func TestC14(t *testing.T) {
	h := hh.Start(t, "C14",
		"cases = one logical record (typed leaves: strings without edge white space, ints, floats with exact decimal forms, bools, RFC3339 times, lists of primitives, nested structs, pointers, absent leaves) and a schema whose struct fields carry random subsets of json/form/query/env/zog tags with distinct names, rendered as Go map, zjson document, zhttp JSON body, urlencoded form, query string and environment; non-trivial = >=3 renderings compared and the schema has a tag-renamed or nested field; distinct = FNV-1a of the case JSON",
		"each rendering's issues and destination must equal the specification's for the record as that front end presents it (documented differences only: which tag names the key, string-typed leaves for form/query/env, env trimming), and all renderings must agree with one another on success/failure, number of issues and destination",
		"renderings a front end cannot express (lists in the environment, empty lists or nested structs in flat sources, un-coercible junk outside JSON) are skipped per front end and counted")
	defer h.Finish()
	cfg := model.DefaultCfg("parse")
	cfg.PPost, cfg.PCatch, cfg.PJunk = 0, 0.1, 0.02
	cfg.PVary, cfg.PAbsent, cfg.PTestSat, cfg.PZogTag, cfg.PLight = 0.3, 0.15, 0.85, 0.3, 0.3
	if h.Thorough() {
		cfg.MaxDepth, cfg.MaxFields, cfg.MaxElems = 4, 6, 5
	}
	// large documents: one record whose text is 1 KiB ... 3 MiB (a long string, or a long list), through the front
	// ends that carry documents (net/http accepts forms up to 10 MB)
	hh.Enumerate(h, "large-documents", func(yield func(c14Case)) {
		for _, size := range []int{1 << 10, 1<<20 - 64, 1<<20 + 1, 3 << 20} {
			for _, shape := range []string{"string", "list"} {
				root := &model.Node{Kind: model.KStruct, Fields: []model.Field{
					{Key: "name", Node: &model.Node{Kind: model.KString, Req: true, Tests: []model.TestSpec{{Name: "min", N: 3}}}},
					{Key: "tags", Node: &model.Node{Kind: model.KSlice, Elem: &model.Node{Kind: model.KString}, Tests: []model.TestSpec{{Name: "min", N: 1}}}},
				}}
				rec := model.Map(model.KV{K: "name", V: model.Str("bob")}, model.KV{K: "tags", V: model.List(model.Str("a"), model.Str("b"))})
				if shape == "string" {
					rec.M[0].V = model.Str(strings.Repeat("n", size))
				} else {
					l := model.Val{T: "list"}
					for i := 0; i < size/8; i++ {
						l.L = append(l.L, model.Str("tag-x"))
					}
					rec.M[1].V = l
				}
				yield(c14Case{Root: root, Logical: rec, FEs: []string{model.FEMap, model.FEJSON, model.FEHTTPJSON, model.FEForm}})
			}
		}
	}, propC14)
	hh.SubEx(h, "equivalence", h.N(12000, 60000), func(rt *rapid.T) c14Case { return genC14(rt, h, cfg) }, propC14, func(c c14Case) string {
		if h.Open("source-tag-on-empty-object") && emptyObjectWithSourceTags(feCase{Root: c.Root, Logical: c.Logical, FE: model.FEJSON, Mode: "parse"}) {
			return "source-tag-on-empty-object"
		}
		return ""
	})
}

// clip shortens a rendered input for messages.
func clip(s string) string {
	if len(s) > 400 {
		return s[:400] + fmt.Sprintf("... (%d bytes)", len(s))
	}
	return s
}
