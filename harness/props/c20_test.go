package props

import (
	"fmt"
	"math"
	"strings"
	"testing"
	"time"

	"pgregory.net/rapid"

	"verifharness/hh"
	"verifharness/model"
)

// C20: built-in tests decide exactly their documented predicate.
// Every case is a single-test schema; the issue must be present iff the
// reference predicate (model/preds.go) is false.

type c20Case struct {
	Kind    string         `json:"kind"`
	Elem    string         `json:"elem,omitempty"` // slice element kind; "ptr:<kind>" = pointer elements
	Test    model.TestSpec `json:"test"`
	Subject model.Val      `json:"subject"` // typed exactly like the destination
	Mode    string         `json:"mode"`
	// ElemFails: every element additionally violates a test of its own (string elements: Len(99)): a test's verdict does
	// not depend on what other nodes of the same execution report
	ElemFails bool `json:"elemFails,omitempty"`
	// Test2: a second test of the same kind on the same node (Min(3).Min(5), Contains("@").Contains(".")): both are decided
	Test2 *model.TestSpec `json:"test2,omitempty"`
}

func (c c20Case) toCase() model.Case {
	n := &model.Node{Kind: c.Kind, Tests: []model.TestSpec{c.Test}}
	if c.Test2 != nil {
		n.Tests = append(n.Tests, *c.Test2)
	}
	if c.Kind == model.KSlice {
		if strings.HasPrefix(c.Elem, "ptr:") {
			n.Elem = &model.Node{Kind: model.KPtr, Elem: &model.Node{Kind: strings.TrimPrefix(c.Elem, "ptr:")}}
		} else {
			n.Elem = &model.Node{Kind: c.Elem}
		}
		if c.ElemFails && c.Elem == model.KString {
			n.Elem.Tests = []model.TestSpec{{Name: "len", N: 99}}
		}
	}
	// an absent-looking subject is supplied through Default, which "is then tested like any other value"
	absent := false
	switch {
	case c.Mode == "parse":
		absent = c.Subject.T == "string" && model.IsParseAbsent(c.Subject.S)
	case c.Kind == model.KSlice:
		absent = len(c.Subject.L) == 0
	default:
		absent = isZeroVal(c.Subject)
	}
	in := c.Subject
	if absent {
		d := c.Subject
		n.Def = &d
		if c.Kind == model.KSlice && c.Mode == "parse" {
			n.Def = nil // an empty slice is present in Parse
		}
	}
	n.Number()
	return model.Case{Root: n, Input: in, Exec: model.Exec{Mode: c.Mode}}
}

func isZeroVal(v model.Val) bool {
	switch v.T {
	case "string":
		return v.S == ""
	case "bool":
		return v.S != "true"
	case "time":
		return v.Go().(time.Time).IsZero()
	case "float32", "float64":
		f := v.Go()
		switch x := f.(type) {
		case float32:
			return x == 0
		case float64:
			return x == 0
		}
	}
	return v.S == "0"
}

func propC20(nontrivial func(c20Case) bool) func(c20Case) hh.Verdict {
	return func(c c20Case) hh.Verdict {
		_, bad, skip := conform(c.toCase(), 1, false, false, false)
		if skip != "" {
			return hh.Verdict{Skip: skip}
		}
		if bad != "" {
			return hh.Fail("%s %s(not=%v) on %s [%s]: %s", c.Kind, c.Test.Name, c.Test.Not, model.JSON(c.Subject), c.Mode, bad)
		}
		return hh.Verdict{Nontrivial: nontrivial == nil || nontrivial(c), Classes: []string{c.Kind + "." + c.Test.Name, "mode:" + c.Mode}}
	}
}

var modes = []string{"parse", "validate"}

func TestC20(t *testing.T) {
	h := hh.Start(t, "C20",
		"single-test schemas; exhaustive sweeps: ContainsUpper/Digit/Special (and their Not forms) over every rune U+0000..U+02FF plus class-edge pairs; string Min/Max/Len for n in 0..6 over subjects of byte length 0..8 incl. multi-byte runes; numeric GT/GTE/LT/LTE/EQ over all pairs of per-width boundary sets incl. NaN/Inf/-0; slice Min/Max/Len/Contains (incl. pointer elements with pointer needles, and with elements that fail a test of their own); the same tests on user-defined named types (StringSchema[T], NumberSchema[T], BoolSchema[T]) with Required on and off; time After/Before/EQ over {t-1ns,t,t+1ns} x zones and over all pairs of eleven instants from year 1 to 9999 (incl. both ends of the int64-nanosecond range); random: OneOf/Contains/HasPrefix/HasSuffix/Match; grammar classes: Email (WHATWG recogniser, generated members and single-edit near misses), UUID (8-4-4-4-12 hex, single edits), URL (only strings certainly with/without scheme+host; every combination of port, path, query and fragment after the authority). Non-trivial = subject within one unit of the parameter, a class-edge or multi-byte rune, a generated grammar member or near miss; every enumerated cell counts once",
		"issue present iff the reference predicate is false, in Parse and Validate; absent-looking subjects are supplied through Default (which the statement says is tested like any other value)",
		"UUID version nibble and URL strings outside the certain classes are not asserted either way")
	defer h.Finish()

	// 1. rune classes, exhaustive
	hh.Enumerate(h, "rune-classes", func(yield func(c20Case)) {
		edges := []string{"@", "A", "Z", "[", "`", "a", "z", "{", "/", "0", "9", ":", "!", "~", " ", "\x7f", "É", "１", "Ａ", "٣"}
		for _, name := range []string{"upper", "digit", "special"} {
			for _, not := range []bool{false, true} {
				for _, mode := range modes {
					for r := rune(0); r < 0x300; r++ {
						yield(c20Case{Kind: model.KString, Test: model.TestSpec{Name: name, Not: not}, Subject: model.Str(string(r)), Mode: mode})
					}
					for _, a := range edges {
						for _, b := range edges {
							yield(c20Case{Kind: model.KString, Test: model.TestSpec{Name: name, Not: not}, Subject: model.Str(a + b), Mode: mode})
						}
					}
					yield(c20Case{Kind: model.KString, Test: model.TestSpec{Name: name, Not: not}, Subject: model.Str("\xff\xc0A"), Mode: mode})
					yield(c20Case{Kind: model.KString, Test: model.TestSpec{Name: name, Not: not}, Subject: model.Str(""), Mode: mode})
				}
			}
		}
	}, propC20(nil))

	// 2. string lengths, exhaustive over n x subject
	hh.Enumerate(h, "string-length", func(yield func(c20Case)) {
		subjects := []string{"", "a", "é", "ab", "日", "aé", "abc", "日a", "abcd", "éé", "日é", "abcde", "日本", "abcdef", "日本a", "abcdefg", "日本é", "abcdefgh", " ", "  a", "\xff", "a\xffb"}
		for _, name := range []string{"min", "max", "len"} {
			for n := 0; n <= 6; n++ {
				for _, s := range subjects {
					for _, mode := range modes {
						yield(c20Case{Kind: model.KString, Test: model.TestSpec{Name: name, N: n}, Subject: model.Str(s), Mode: mode})
						if n%2 == 0 {
							yield(c20Case{Kind: model.KString, Test: model.TestSpec{Name: name, N: n}, Test2: &model.TestSpec{Name: name, N: n + 2}, Subject: model.Str(s), Mode: mode})
							yield(c20Case{Kind: model.KString, Test: model.TestSpec{Name: name, N: n + 2}, Test2: &model.TestSpec{Name: name, N: n}, Subject: model.Str(s), Mode: mode})
						}
						if name == "len" {
							yield(c20Case{Kind: model.KString, Test: model.TestSpec{Name: name, N: n, Not: true}, Subject: model.Str(s), Mode: mode})
						}
					}
				}
			}
		}
	}, propC20(nil))

	// 3. numeric comparisons, all pairs over boundary sets
	hh.Enumerate(h, "numeric-compare", func(yield func(c20Case)) {
		ints := map[string][]int64{
			model.KInt:   {math.MinInt64, math.MinInt64 + 1, -(1 << 53), -(1 << 31) - 1, -2, -1, 0, 1, 2, 1 << 31, 1<<53 + 1, math.MaxInt64 - 1, math.MaxInt64},
			model.KInt64: {math.MinInt64, math.MinInt64 + 1, -1, 0, 1, 1<<53 + 1, math.MaxInt64 - 1, math.MaxInt64},
			model.KInt32: {math.MinInt32, math.MinInt32 + 1, -1, 0, 1, math.MaxInt32 - 1, math.MaxInt32},
		}
		f64 := []float64{math.Inf(-1), -math.MaxFloat64, -1, -math.SmallestNonzeroFloat64, math.Copysign(0, -1), 0, math.SmallestNonzeroFloat64, 1 - 1.0/(1<<53), 1, 1 + 1.0/(1<<52), 0.1 + 0.2, 0.3, math.MaxFloat64, math.Inf(1), math.NaN()}
		f32 := []float32{float32(math.Inf(-1)), -math.MaxFloat32, -1, 0, math.SmallestNonzeroFloat32, 1, 1 + 1.0/(1<<23), 16777216, 16777218, math.MaxFloat32, float32(math.Inf(1)), float32(math.NaN())}
		names := []string{"eq", "lt", "lte", "gt", "gte"}
		for kind, set := range ints {
			for _, a := range set {
				for _, b := range set {
					for _, name := range names {
						for _, mode := range modes {
							arg := model.Val{T: kind, S: fmt.Sprint(b)}
							yield(c20Case{Kind: kind, Test: model.TestSpec{Name: name, Arg: &arg}, Subject: model.Val{T: kind, S: fmt.Sprint(a)}, Mode: mode})
						}
					}
				}
			}
		}
		for _, a := range f64 {
			for _, b := range f64 {
				for _, name := range names {
					arg := model.F64(b)
					yield(c20Case{Kind: model.KFloat64, Test: model.TestSpec{Name: name, Arg: &arg}, Subject: model.F64(a), Mode: "validate"})
					yield(c20Case{Kind: model.KFloat64, Test: model.TestSpec{Name: name, Arg: &arg}, Subject: model.F64(a), Mode: "parse"})
				}
			}
		}
		for _, a := range f32 {
			for _, b := range f32 {
				for _, name := range names {
					arg := model.F32(b)
					yield(c20Case{Kind: model.KFloat32, Test: model.TestSpec{Name: name, Arg: &arg}, Subject: model.F32(a), Mode: "validate"})
					yield(c20Case{Kind: model.KFloat32, Test: model.TestSpec{Name: name, Arg: &arg}, Subject: model.F32(a), Mode: "parse"})
				}
			}
		}
		// OneOf membership incl. NaN and -0
		for _, a := range f64 {
			yield(c20Case{Kind: model.KFloat64, Test: model.TestSpec{Name: "oneof", Args: []model.Val{model.F64(1), model.F64(math.NaN()), model.F64(0), model.F64(0.3)}}, Subject: model.F64(a), Mode: "validate"})
		}
		for _, a := range ints[model.KInt] {
			yield(c20Case{Kind: model.KInt, Test: model.TestSpec{Name: "oneof", Args: []model.Val{model.Int(1), model.Int(math.MaxInt64), model.Int(-2)}}, Subject: model.Val{T: model.KInt, S: fmt.Sprint(a)}, Mode: "parse"})
		}
		// booleans
		for _, b := range []bool{false, true} {
			for _, mode := range modes {
				for _, name := range []string{"true", "false"} {
					yield(c20Case{Kind: model.KBool, Test: model.TestSpec{Name: name}, Subject: model.Bool(b), Mode: mode})
				}
				for _, e := range []bool{false, true} {
					arg := model.Bool(e)
					yield(c20Case{Kind: model.KBool, Test: model.TestSpec{Name: "eq", Arg: &arg}, Subject: model.Bool(b), Mode: mode})
				}
			}
		}
	}, propC20(nil))

	// 4. slices
	hh.Enumerate(h, "slice-tests", func(yield func(c20Case)) {
		mk := func(k int) model.Val {
			v := model.Val{T: "list"}
			for i := 0; i < k; i++ {
				v.L = append(v.L, model.Str(fmt.Sprintf("e%d", i)))
			}
			return v
		}
		for _, name := range []string{"min", "max", "len"} {
			for n := 0; n <= 5; n++ {
				for k := 0; k <= 6; k++ {
					for _, mode := range modes {
						yield(c20Case{Kind: model.KSlice, Elem: model.KString, Test: model.TestSpec{Name: name, N: n}, Subject: mk(k), Mode: mode})
						if k > 0 {
							yield(c20Case{Kind: model.KSlice, Elem: model.KString, Test: model.TestSpec{Name: name, N: n}, Subject: mk(k), Mode: mode, ElemFails: true})
						}
					}
				}
			}
		}
		for k := 0; k <= 4; k++ {
			for _, needle := range []string{"e0", "e3", "E0", "e", ""} {
				for _, mode := range modes {
					arg := model.Str(needle)
					yield(c20Case{Kind: model.KSlice, Elem: model.KString, Test: model.TestSpec{Name: "contains", Arg: &arg}, Subject: mk(k), Mode: mode})
					if k > 0 {
						yield(c20Case{Kind: model.KSlice, Elem: model.KString, Test: model.TestSpec{Name: "contains", Arg: &arg}, Subject: mk(k), Mode: mode, ElemFails: true})
					}
				}
			}
		}
		// pointer elements: Contains(&v) is membership by deep equality, not by pointer identity
		for _, mode := range modes {
			for _, needle := range []string{"e0", "e1", "zz"} {
				arg := model.Str(needle)
				yield(c20Case{Kind: model.KSlice, Elem: "ptr:string", Test: model.TestSpec{Name: "contains", Arg: &arg}, Subject: mk(2), Mode: mode})
			}
			for _, needle := range []int{1, 7, 8} {
				arg := model.Int(needle)
				yield(c20Case{Kind: model.KSlice, Elem: "ptr:int", Test: model.TestSpec{Name: "contains", Arg: &arg}, Subject: model.List(model.Int(1), model.Int(7)), Mode: mode})
			}
		}
		for _, mode := range modes {
			for _, needle := range []int{0, 1, 2, 7} {
				arg := model.Int(needle)
				yield(c20Case{Kind: model.KSlice, Elem: model.KInt, Test: model.TestSpec{Name: "contains", Arg: &arg}, Subject: model.List(model.Int(1), model.Int(7), model.Int(1)), Mode: mode})
			}
			for _, needle := range []float64{0.5, math.NaN(), 1} {
				arg := model.F64(needle)
				yield(c20Case{Kind: model.KSlice, Elem: model.KFloat64, Test: model.TestSpec{Name: "contains", Arg: &arg}, Subject: model.List(model.F64(0.5), model.F64(math.NaN())), Mode: "validate"})
			}
		}
	}, propC20(nil))

	// 5. times
	hh.Enumerate(h, "time-compare", func(yield func(c20Case)) {
		base := time.Date(2024, 2, 29, 23, 59, 59, 999999999, time.UTC)
		zs := []*time.Location{time.UTC, time.FixedZone("", 5*3600+1800), time.FixedZone("", -8*3600)}
		for _, d := range []time.Duration{-time.Second, -time.Nanosecond, 0, time.Nanosecond, time.Second} {
			for _, zs1 := range zs {
				for _, zs2 := range zs {
					for _, name := range []string{"after", "before", "eq"} {
						for _, mode := range modes {
							arg := model.Time(base.In(zs2))
							yield(c20Case{Kind: model.KTime, Test: model.TestSpec{Name: name, Arg: &arg}, Subject: model.Time(base.Add(d).In(zs1)), Mode: mode})
						}
					}
				}
			}
		}
		// instants far from the present: the comparisons are time.After/Before/Equal over the whole range of time.Time
		// (year 1 ... 9999), also where a count of nanoseconds since 1970 no longer fits 64 bits (before 1678, after 2262)
		far := []time.Time{
			time.Date(1, 1, 1, 0, 0, 1, 0, time.UTC), time.Date(1600, 6, 1, 12, 0, 0, 0, time.UTC),
			time.Date(1677, 9, 21, 0, 12, 43, 145224191, time.UTC), time.Date(1677, 9, 21, 0, 12, 43, 145224193, time.UTC),
			time.Date(1969, 12, 31, 23, 59, 59, 999999999, time.UTC), time.Date(1970, 1, 1, 0, 0, 0, 0, time.UTC), base,
			time.Date(2262, 4, 11, 23, 47, 16, 854775806, time.UTC), time.Date(2262, 4, 11, 23, 47, 16, 854775808, time.UTC),
			time.Date(2500, 1, 1, 0, 0, 0, 0, time.UTC), time.Date(9999, 12, 31, 23, 59, 59, 999999999, time.UTC),
		}
		for i, a := range far {
			for j, b := range far {
				for _, name := range []string{"after", "before", "eq"} {
					arg := model.Time(b)
					yield(c20Case{Kind: model.KTime, Test: model.TestSpec{Name: name, Arg: &arg}, Subject: model.Time(a), Mode: modes[(i+j)%len(modes)]})
				}
			}
		}
	}, propC20(nil))

	// 5b. named primitive types (StringSchema[T ~string], NumberSchema[T], BoolSchema[T ~bool]) incl. the absent rule
	hh.Enumerate(h, "named-types", c20NamedCells, propC20Named)

	// 6. random string relations
	alphabet := []rune("abAB19 .-_@/é日\x00")
	strGen := rapid.StringOfN(rapid.SampledFrom(alphabet), 0, 10, -1)
	hh.Sub(h, "string-relations", h.N(20000, 100000), func(rt *rapid.T) c20Case {
		s := strGen.Draw(rt, "s")
		name := rapid.SampledFrom([]string{"prefix", "suffix", "contains", "oneof", "match"}).Draw(rt, "name")
		ts := model.TestSpec{Name: name, Not: rapid.Bool().Draw(rt, "not")}
		sub := func() string {
			if len(s) > 0 && rapid.Bool().Draw(rt, "fromS") {
				i := rapid.IntRange(0, len(s)).Draw(rt, "i")
				j := rapid.IntRange(i, len(s)).Draw(rt, "j")
				switch name {
				case "prefix":
					return s[:j]
				case "suffix":
					return s[i:]
				}
				return s[i:j]
			}
			return strGen.Draw(rt, "p")
		}
		switch name {
		case "prefix", "suffix", "contains":
			ts.Str = sub()
		case "oneof":
			ts.Args = []model.Val{model.Str(strGen.Draw(rt, "o1")), model.Str(strGen.Draw(rt, "o2"))}
			if rapid.Bool().Draw(rt, "in") {
				ts.Args = append(ts.Args, model.Str(s))
			}
		case "match":
			ts.Str = rapid.SampledFrom(model.MatchMenuKeys).Draw(rt, "re")
			if rapid.Bool().Draw(rt, "shape") {
				s = rapid.SampledFrom([]string{"abc", "123", "12", "1234", "xabz", "Abz", "az", "z", "A", "ab", "aB", "abz\n", "12a"}).Draw(rt, "ms")
			}
		}
		out := c20Case{Kind: model.KString, Test: ts, Subject: model.Str(s), Mode: rapid.SampledFrom(modes).Draw(rt, "mode")}
		if (name == "prefix" || name == "suffix" || name == "contains") && rapid.IntRange(0, 3).Draw(rt, "twice") == 0 {
			t2 := model.TestSpec{Name: name, Not: ts.Not, Str: sub()} // the same kind of test once more, with another parameter
			out.Test2 = &t2
		}
		return out
	}, propC20(func(c c20Case) bool { return len(c.Subject.S) > 0 }))

	// 7. grammar classes
	atext := "abcxyzABCXYZ0189.!#$%&'*+/=?^_`{|}~-"
	localGen := rapid.StringOfN(rapid.SampledFrom([]rune(atext)), 1, 8, -1)
	labelGen := rapid.Custom(func(rt *rapid.T) string {
		n := rapid.SampledFrom([]int{1, 2, 3, 5, 62, 63}).Draw(rt, "ln")
		var sb strings.Builder
		for i := 0; i < n; i++ {
			set := "ab19XZ-"
			if i == 0 || i == n-1 {
				set = "ab19XZ"
			}
			sb.WriteByte(set[rapid.IntRange(0, len(set)-1).Draw(rt, "c")])
		}
		return sb.String()
	})
	edit := func(rt *rapid.T, s string) string {
		pool := "@.-_ aZ9:/\x00é,;<>()[]\\\"!#$%&'*+=?^`{|}~\t\n\x7f"
		i := rapid.IntRange(0, len(s)).Draw(rt, "ei")
		c := string(pool[rapid.IntRange(0, len(pool)-1).Draw(rt, "ec")])
		switch rapid.IntRange(0, 2).Draw(rt, "ek") {
		case 0:
			return s[:i] + c + s[i:]
		case 1:
			if i < len(s) {
				return s[:i] + s[i+1:]
			}
			return s + c
		default:
			if i < len(s) {
				return s[:i] + c + s[i+1:]
			}
			return c + s
		}
	}
	// 7a. every single byte at every position class of the Email and UUID grammars (character classes, exhaustively)
	hh.Enumerate(h, "grammar-bytes", func(yield func(c20Case)) {
		for b := 0; b < 256; b++ {
			c := string([]byte{byte(b)})
			subjects := []string{
				c + "@ex.com", "a" + c + "b@ex.com", "ab" + c + "@ex.com", // local part: first, inner, last
				"ab@" + c + "x.com", "ab@e" + c + "x.com", "ab@ex" + c + ".com", "ab@ex.c" + c + "m", "ab@ex.co" + c, // labels: first, inner, last
			}
			for _, sub := range subjects {
				for _, not := range []bool{false, true} {
					yield(c20Case{Kind: model.KString, Test: model.TestSpec{Name: "email", Not: not}, Subject: model.Str(sub), Mode: modes[(b+len(sub))%len(modes)]})
				}
			}
			uuid := "123e4567-e89b-12d3-a456-426614174000"
			for _, pos := range []int{0, 7, 8, 9, 13, 14, 18, 19, 23, 35} { // hex digits, the four dashes, both ends
				sub := uuid[:pos] + c + uuid[pos+1:]
				yield(c20Case{Kind: model.KString, Test: model.TestSpec{Name: "uuid"}, Subject: model.Str(sub), Mode: modes[(b+pos)%len(modes)]})
			}
		}
	}, propC20(nil))

	// 7a'. the same positions with runes that Unicode case mapping, folding or width conversion relates to ASCII
	// characters (U+0130 lowers to i, U+212A to k, U+017F upper-cases to S, full-width forms, combining marks,
	// invisible characters): none of them is an ASCII letter, digit or separator of these grammars
	hh.Enumerate(h, "grammar-lookalikes", func(yield func(c20Case)) {
		runes := []string{"\u0130", "\u0131", "\u212a", "\u212b", "\u017f", "\uff41", "\uff21", "\uff10", "\uff20", "\uff0e", "\uff0d", "\u00df", "a\u0301", "\u00ad", "\u200b", "\u200d", "\u00e9", "\u00c9", "\u0430", "\u0391", "\u2010", "\u2024", "\ufe52", "\u3002"}
		k := 0
		for _, c := range runes {
			subjects := []string{
				c + "@ex.com", "a" + c + "b@ex.com", "ab" + c + "@ex.com", c + "smail@example.com",
				"ab@" + c + "x.com", "ab@e" + c + "x.com", "ab@ex" + c + ".com", "ab@ex.c" + c + "m", "ab@ex.co" + c, "kelvin@" + c + ".example.com", "ab@ex" + c + "com", "ab" + c + "ex.com",
			}
			for _, sub := range subjects {
				for _, not := range []bool{false, true} {
					for _, mode := range modes {
						yield(c20Case{Kind: model.KString, Test: model.TestSpec{Name: "email", Not: not}, Subject: model.Str(sub), Mode: mode})
					}
				}
			}
			uuid := "123e4567-e89b-12d3-a456-426614174000"
			for _, pos := range []int{0, 7, 8, 9, 13, 14, 18, 19, 23, 35} {
				k++
				yield(c20Case{Kind: model.KString, Test: model.TestSpec{Name: "uuid"}, Subject: model.Str(uuid[:pos] + c + uuid[pos+1:]), Mode: modes[k%len(modes)]})
			}
			for _, name := range []string{"upper", "digit", "special"} {
				for _, not := range []bool{false, true} {
					for _, mode := range modes {
						yield(c20Case{Kind: model.KString, Test: model.TestSpec{Name: name, Not: not}, Subject: model.Str("ab" + c + "cd"), Mode: mode})
						yield(c20Case{Kind: model.KString, Test: model.TestSpec{Name: name, Not: not}, Subject: model.Str(c), Mode: mode})
					}
				}
			}
		}
	}, propC20(nil))

	// 7b. URL shapes: every combination of the optional components after scheme://host
	hh.Enumerate(h, "url-shapes", func(yield func(c20Case)) {
		i := 0
		for _, scheme := range []string{"http", "https", "ftp", "a1"} {
			for _, host := range []string{"example.com", "a", "localhost", "1.2.3.4", "sub.d-x.io"} {
				for _, port := range []string{"", ":8080"} {
					for _, path := range []string{"", "/", "/a/b.c"} {
						for _, query := range []string{"", "?", "?q=1&r=2"} {
							for _, frag := range []string{"", "#", "#sec", "#/dash?x=1"} {
								i++
								sub := scheme + "://" + host + port + path + query + frag
								yield(c20Case{Kind: model.KString, Test: model.TestSpec{Name: "url", Not: i%5 == 0}, Subject: model.Str(sub), Mode: modes[i%len(modes)]})
								// the same URL as a pasted or line-read value carries it: with a line break, a tab or a leading blank
								pad := []string{"\n", "\r\n", "\t", " ", "\x7f"}[i%5]
								if pad != " " {
									yield(c20Case{Kind: model.KString, Test: model.TestSpec{Name: "url", Not: i%3 == 0}, Subject: model.Str(sub + pad), Mode: modes[(i/2)%len(modes)]})
								}
								yield(c20Case{Kind: model.KString, Test: model.TestSpec{Name: "url", Not: i%7 == 0}, Subject: model.Str(pad + sub), Mode: modes[(i/3)%len(modes)]})
							}
						}
					}
				}
			}
		}
	}, propC20(nil))

	hh.Sub(h, "grammar", h.N(20000, 100000), func(rt *rapid.T) c20Case {
		which := rapid.SampledFrom([]string{"email", "uuid", "url"}).Draw(rt, "which")
		var s string
		switch which {
		case "email":
			labels := rapid.SliceOfN(labelGen, 1, 3).Draw(rt, "labels")
			s = localGen.Draw(rt, "local") + "@" + strings.Join(labels, ".")
			if len(labels[0]) == 63 && rapid.Bool().Draw(rt, "long") {
				s += "x" // 64-character last label: outside the grammar
				s = strings.Replace(s, "."+labels[len(labels)-1]+"x", "."+labels[len(labels)-1], 1)
			}
		case "uuid":
			hexd := "0123456789abcdefABCDEF"
			var sb strings.Builder
			for i := 0; i < 36; i++ {
				if i == 8 || i == 13 || i == 18 || i == 23 {
					sb.WriteByte('-')
				} else {
					sb.WriteByte(hexd[rapid.IntRange(0, len(hexd)-1).Draw(rt, "h")])
				}
			}
			s = sb.String()
		case "url":
			if rapid.Bool().Draw(rt, "valid") {
				s = rapid.SampledFrom([]string{"http", "https", "ftp", "x", "a1"}).Draw(rt, "sch") + "://" + labelGen.Draw(rt, "host")
				if rapid.Bool().Draw(rt, "port") {
					s += fmt.Sprintf(":%d", rapid.IntRange(1, 65535).Draw(rt, "p"))
				}
				if rapid.Bool().Draw(rt, "path") {
					s += "/" + rapid.StringOfN(rapid.SampledFrom([]rune("ab1/._~-")), 0, 6, -1).Draw(rt, "pth")
				}
				if rapid.Bool().Draw(rt, "q") {
					s += "?" + rapid.StringOfN(rapid.SampledFrom([]rune("ab1=&_-")), 0, 6, -1).Draw(rt, "qs")
				}
				if rapid.IntRange(0, 2).Draw(rt, "frag") == 0 { // a fragment may follow the authority, the path or the query
					s += "#" + rapid.StringOfN(rapid.SampledFrom([]rune("ab1/?=&_.~-")), 0, 6, -1).Draw(rt, "fs")
				}
			} else {
				s = rapid.StringOfN(rapid.SampledFrom([]rune("abz19./?#@ -_%é")), 0, 12, -1).Draw(rt, "nourl") // no ':' => no scheme
			}
		}
		if which != "url" && rapid.IntRange(0, 2).Draw(rt, "edits") > 0 {
			s = edit(rt, s)
			if rapid.Bool().Draw(rt, "edit2") {
				s = edit(rt, s)
			}
		}
		ts := model.TestSpec{Name: which, Not: rapid.IntRange(0, 3).Draw(rt, "not") == 0}
		return c20Case{Kind: model.KString, Test: ts, Subject: model.Str(s), Mode: rapid.SampledFrom(modes).Draw(rt, "mode")}
	}, propC20(nil))
}
