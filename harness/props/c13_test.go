package props

import (
	z "github.com/Oudwins/zog"
	"github.com/Oudwins/zog/conf"
	"reflect"
	"testing"

	"pgregory.net/rapid"

	"verifharness/hh"
	"verifharness/model"
)

// C13: Parse and Validate agree on fully populated values (differential).

type c13Case struct {
	Root  *model.Node `json:"root"`
	Value model.Val   `json:"value"` // fully populated typed value of the destination type
	// Global: the application configured its own global formatter (conf.IssueFormatter) before both executions
	Global bool `json:"global,omitempty"`
}

// toMap renders the typed value as the map / list tree it would be decoded
// from: struct -> map keyed by zog tag else schema key, slice -> []any, leaves as they are.
func toMap(n *model.Node, v model.Val) model.Val {
	switch n.Kind {
	case model.KStruct:
		out := model.Val{T: "map"}
		for _, f := range n.Fields {
			fv, _ := v.Get(f.Key)
			key := f.Key
			if t, ok := f.Tags["zog"]; ok {
				key = t
			}
			out.M = append(out.M, model.KV{K: key, V: toMap(f.Node, fv)})
		}
		return out
	case model.KSlice:
		out := model.Val{T: "list"}
		for _, e := range v.L {
			out.L = append(out.L, toMap(n.Elem, e))
		}
		return out
	case model.KPtr:
		return toMap(n.Elem, v)
	}
	return v
}

func hasPosts(n *model.Node) (any, failing bool) {
	n.Walk(func(x *model.Node) {
		for _, p := range x.Posts {
			any = true
			if p.Behaviour == "error" || p.Behaviour == "issue" || p.Behaviour == "issue-nopath" || p.Behaviour == "wrapped" {
				failing = true
			}
		}
	})
	return
}

func propC13(c c13Case) hh.Verdict {
	if c.Global {
		saved := conf.IssueFormatter
		defer func() { conf.IssueFormatter = saved }()
		conf.IssueFormatter = func(e *z.ZogIssue, ctx z.Ctx) { e.SetMessage("GLOBAL " + e.Code + " " + e.Dtype) }
	}
	c.Root.Number()
	env := &model.Env{}
	schema, typ := model.Build(c.Root, env)
	// Validate in place
	vcase := model.Case{Root: c.Root, Input: c.Value, Exec: model.Exec{Mode: "validate"}}
	vdest := newDest(typ, vcase, false)
	vres := model.Run(schema, env, vcase.Exec, nil, vdest)
	if vres.Panic != nil {
		return hh.Fail("Validate panicked: %v", vres.Panic)
	}
	// Parse the same value presented as a map into a fresh destination
	in := toMap(c.Root, c.Value)
	pdest := reflect.New(typ)
	pres := model.Run(schema, env, model.Exec{Mode: "parse"}, in.Go(), pdest)
	if pres.Panic != nil {
		return hh.Fail("Parse panicked: %v", pres.Panic)
	}
	vi, pi := vres.Norm(true), pres.Norm(true)
	posts, failing := hasPosts(c.Root)
	if (len(vi) > 0 || len(pi) > 0) && (model.RiskyPosts(c.Root) || failing && (nonPostIssues(vres) || nonPostIssues(pres))) {
		return hh.Verdict{Skip: "order-dependent-post-gating"}
	}
	if !model.EqualIss(vi, pi) {
		return hh.Fail("issues differ:\n validate %s\n parse    %s", fmtIss(vi), fmtIss(pi))
	}
	linear := !failing
	c.Root.Walk(func(n *model.Node) { linear = linear && len(n.Fields) <= 1 })
	if !posts || len(vi) == 0 || linear {
		if g, w := model.CanonJSON(pdest.Elem()), model.CanonJSON(vdest.Elem()); g != w {
			return hh.Fail("values differ: parse left %s, validate left %s", g, w)
		}
	}
	v := hh.Verdict{Classes: shapeClasses(c.Root)}
	depth := 0
	var dep func(n *model.Node, d int)
	dep = func(n *model.Node, d int) {
		if d > depth {
			depth = d
		}
		if n.Elem != nil {
			dep(n.Elem, d+1)
		}
		for _, f := range n.Fields {
			dep(f.Node, d+1)
		}
	}
	dep(c.Root, 0)
	if len(vi) > 0 {
		v.Classes = append(v.Classes, "has-issues")
	}
	if posts {
		v.Classes = append(v.Classes, "has-posts")
	}
	if failing {
		v.Classes = append(v.Classes, "failing-post")
	}
	v.Nontrivial = len(vi) > 0 || posts || depth >= 2
	return v
}

func nonPostIssues(r *model.Result) bool {
	for _, is := range r.All() {
		if is.Err == nil && is.Code != "post_issue" {
			return true
		}
		if _, ok := is.Err.(*model.PostError); !ok && is.Code != "post_issue" {
			if _, ok2 := is.Err.(interface{ Unwrap() error }); !ok2 {
				return true
			}
		}
	}
	return false
}

func genC13(rt *rapid.T, cfg model.GenCfg, failingPost bool) c13Case {
	g := model.NewGen(rt, cfg)
	var root *model.Node
	if !failingPost && rapid.IntRange(0, 5).Draw(rt, "shared") == 0 {
		// one schema object at several places, with per-use destination types (field order, zog tags)
		saved := g.Cfg
		g.Cfg.MaxDepth, g.Cfg.PPost, g.Cfg.NoCustom = 1, 0, true
		root = sharedRoot(rt, g)
		g.Cfg = saved
		return c13Case{Root: root, Value: g.GenTyped(root), Global: rapid.IntRange(0, 3).Draw(rt, "global") == 0}
	}
	if !failingPost && rapid.IntRange(0, 4).Draw(rt, "linear") == 0 {
		// schemas whose visit order is fixed (every struct has one field, slices go by index): the documented
		// global gating of PostTransforms then gives one determined result, also when issues exist
		g.Cfg.MaxFields, g.Cfg.ManyFields, g.Cfg.PPost, g.Cfg.PTestSat = 1, false, 0.35, 0.7
		g.Cfg.RootKinds = []string{model.KSlice, model.KStruct, model.KSlice}
	}
	root = g.GenNode(cfg.MaxDepth, true)
	if failingPost {
		var nodes []*model.Node
		root.Walk(func(n *model.Node) {
			if n.Kind != model.KPtr && n.Kind != model.KCustom {
				nodes = append(nodes, n)
			}
		})
		if len(nodes) > 0 {
			n := nodes[rapid.IntRange(0, len(nodes)-1).Draw(rt, "postnode")]
			n.Posts = append(n.Posts, model.PostSpec{Behaviour: rapid.SampledFrom([]string{"error", "issue", "wrapped", "issue-nopath"}).Draw(rt, "pb")})
		}
	}
	root.Number()
	return c13Case{Root: root, Value: g.GenTyped(root), Global: rapid.IntRange(0, 3).Draw(rt, "global") == 0}
}

func TestC13(t *testing.T) {
	h := hh.Start(t, "C13",
		"cases = (schema without Preprocess, fully populated typed value: no zero or white-space-only leaf, no empty slice, no nil pointer), mostly valid with some violated nodes; schemas include Catch, Default, custom tests, IssuePath, own-node mutating PostTransforms and (second sub-check) one failing PostTransform returning an error or a ZogIssue; non-trivial = at least one issue, or a PostTransform, or depth >= 2; distinct = FNV-1a of the case JSON",
		"differential oracle: Validate(&v) against Parse(toMap(v), &fresh) must give equal multisets of (path, code, type, message) and equal resulting values",
		"values are compared when no PostTransform is present, or no issue occurred, or the schema's visit order is fixed (every struct has at most one field: a fifth of the cases are generated that way); cases where issues coexist with a PostTransform that an enclosing data-dependent test could observe are skipped (order-dependent by the documented gating)")
	defer h.Finish()
	cfg := model.DefaultCfg("validate")
	cfg.FullyPop = true
	cfg.PCatch, cfg.PDefault, cfg.PPost, cfg.PVary, cfg.PTestSat, cfg.POpts = 0.2, 0.15, 0.1, 0.3, 0.85, 0.2
	if h.Thorough() {
		cfg.MaxDepth, cfg.MaxFields, cfg.MaxElems, cfg.ManyFields = 4, 6, 6, true
	}
	hh.Sub(h, "agree", h.N(30000, 150000), func(rt *rapid.T) c13Case { return genC13(rt, cfg, false) }, propC13)
	pcfg := cfg
	pcfg.PTestSat, pcfg.PVary, pcfg.PPost = 1, 0, 0.05
	hh.Sub(h, "failing-post", h.N(10000, 60000), func(rt *rapid.T) c13Case { return genC13(rt, pcfg, true) }, propC13)
}
