package props

import (
	"fmt"
	"os"
	"testing"

	"pgregory.net/rapid"

	"verifharness/model"
)

func TestDbgGen(t *testing.T) {
	if os.Getenv("DBG") == "" {
		t.Skip()
	}
	hist := map[string]int{}
	n := 0
	cfg := model.DefaultCfg("parse")
	cfg.PPost = 0
	cfg.PCatch, cfg.PVary, cfg.PAbsent, cfg.PJunk, cfg.PTestSat, cfg.PClean = 0.3, 0.2, 0.1, 0.04, 0.95, 1
	rapid.Check(t, func(rt *rapid.T) {
		c := model.GenCase(rt, cfg)
		out, _, _ := conform(c, 1, false, false, false)
		n++
		for _, i := range out.spec.Issues {
			hist[i.Code]++
		}
		if len(out.spec.Issues) == 0 {
			hist["<none>"]++
		}
		if n%400 == 0 && len(out.spec.Issues) > 0 {
			fmt.Println(model.JSON(c), out.spec.Issues)
		}
	})
	fmt.Println(n, hist)
}
