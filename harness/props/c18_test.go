package props

import (
	"fmt"
	"math"
	"math/big"
	"reflect"
	"regexp"
	"strconv"
	"strings"
	"testing"

	z "github.com/Oudwins/zog"
	"github.com/Oudwins/zog/parsers/zjson"
	"pgregory.net/rapid"

	"verifharness/hh"
	"verifharness/model"
)

// C18: numeric coercion never silently changes a number. Oracle: exact
// arithmetic (math/big) on the input.

type c18Case struct {
	Kind string    `json:"kind"`           // int | int32 | int64 | float32 | float64
	In   model.Val `json:"in"`             // int*, uint*, float*, string
	JSON string    `json:"json,omitempty"` // if set: the number literal is sent through zjson instead
	// InMap: the value is the entry "n" of a map[string]any parsed by a struct schema (data providers see it first)
	InMap bool `json:"inMap,omitempty"`
	// InSlice: the value is an element of a typed Go slice ([]int64, []float32, []string ...) parsed by a slice schema
	InSlice bool `json:"inSlice,omitempty"`
	// TypedMap (with InMap): the map is a typed Go map whose element type is the value's own type
	TypedMap bool `json:"typedMap,omitempty"`
}

var plainNumberRe = regexp.MustCompile(`^[+-]?[0-9]+(\.[0-9]*)?([eE][+-]?[0-9]+)?$`)

// exact returns the exact value of the input: a rational, or one of the
// markers "nan", "+inf", "-inf", or "" when the input's numeric meaning is not
// fixed by a syntax this oracle models.
func exactOf(v model.Val) (*big.Rat, string) {
	switch v.T {
	case "jsonnum":
		return exactOf(model.Str(v.S))
	case "bigfloat":
		r, ok := new(big.Rat).SetString(v.S)
		if !ok {
			panic("bad bigfloat payload")
		}
		return r, "rat"
	case "int", "int8", "int16", "int32", "int64", "uint", "uint8", "uint16", "uint32", "uint64", "cents", "level":
		r, ok := new(big.Rat).SetString(v.S)
		if !ok {
			panic("bad int payload")
		}
		return r, "rat"
	case "float32", "float64":
		f := reflect.ValueOf(v.Go()).Float()
		switch {
		case math.IsNaN(f):
			return nil, "nan"
		case math.IsInf(f, 1):
			return nil, "+inf"
		case math.IsInf(f, -1):
			return nil, "-inf"
		}
		return new(big.Rat).SetFloat64(f), "rat"
	case "string":
		s := v.S
		if plainNumberRe.MatchString(s) {
			// big.Rat.SetString accepts decimals with exponents exactly
			if m := regexp.MustCompile(`[eE]([+-]?[0-9]+)$`).FindStringSubmatch(s); m != nil && len(m[1]) > 5 {
				return nil, ""
			}
			r, ok := new(big.Rat).SetString(s)
			if ok {
				return r, "rat"
			}
		}
		switch strings.ToLower(strings.TrimLeft(s, "+-")) {
		case "inf", "infinity":
			if strings.HasPrefix(s, "-") {
				return nil, "-inf"
			}
			return nil, "+inf"
		case "nan":
			return nil, "nan"
		}
		return nil, ""
	}
	return nil, ""
}

func truncRat(q *big.Rat) *big.Int {
	return new(big.Int).Quo(q.Num(), q.Denom()) // Quo truncates toward zero
}

func intBounds(kind string) (*big.Int, *big.Int) {
	switch kind {
	case model.KInt32:
		return big.NewInt(math.MinInt32), big.NewInt(math.MaxInt32)
	}
	return big.NewInt(math.MinInt64), big.NewInt(math.MaxInt64)
}

func propC18(c c18Case) hh.Verdict {
	n := &model.Node{Kind: c.Kind}
	var res *model.Result
	var destVal reflect.Value
	env := &model.Env{}
	if c.InSlice {
		root := &model.Node{Kind: model.KSlice, Elem: n}
		root.Number()
		schema, typ := model.Build(root, env)
		dest := reflect.New(typ)
		one := c.In.Go()
		in := reflect.MakeSlice(reflect.SliceOf(reflect.TypeOf(one)), 2, 2)
		in.Index(1).Set(reflect.ValueOf(one)) // (the first element is the type's zero value)
		res = model.Run(schema, env, model.Exec{Mode: "parse"}, in.Interface(), dest)
		if res.Panic == nil && res.NoIssues() && dest.Elem().Len() != 2 {
			return hh.Fail("a list of 2 elements was accepted as %d elements", dest.Elem().Len())
		}
		if dest.Elem().Len() == 2 {
			destVal = dest.Elem().Index(1)
		} else {
			destVal = reflect.New(typ.Elem()).Elem()
		}
	} else if c.JSON != "" || c.InMap {
		root := &model.Node{Kind: model.KStruct, Fields: []model.Field{{Key: "n", Node: n}}}
		root.Number()
		schema, typ := model.Build(root, env)
		dest := reflect.New(typ)
		res = &model.Result{IsMap: true, Dest: dest}
		func() {
			defer func() {
				if p := recover(); p != nil {
					res.Panic = p
				}
			}()
			if c.InMap && c.TypedMap {
				// a typed Go map (map[string]float64, map[string]int64, map[string]string ...): a table row of one cell type
				one := c.In.Go()
				m := reflect.MakeMap(reflect.MapOf(reflect.TypeOf(""), reflect.TypeOf(one)))
				m.SetMapIndex(reflect.ValueOf("n"), reflect.ValueOf(one))
				res.Map = schema.(*z.StructSchema).Parse(m.Interface(), dest.Interface())
			} else if c.InMap {
				res.Map = schema.(*z.StructSchema).Parse(map[string]any{"n": c.In.Go()}, dest.Interface())
			} else {
				res.Map = schema.(*z.StructSchema).Parse(zjson.Decode(strings.NewReader(`{"n":`+c.JSON+`}`)), dest.Interface())
			}
		}()
		destVal = dest.Elem().Field(0)
	} else {
		n.Number()
		schema, typ := model.Build(n, env)
		dest := reflect.New(typ)
		res = model.Run(schema, env, model.Exec{Mode: "parse"}, c.In.Go(), dest)
		destVal = dest.Elem()
	}
	if res.Panic != nil {
		return hh.Fail("panic: %v", res.Panic)
	}
	in := c.In
	if c.JSON != "" {
		// encoding/json presents a JSON number as the nearest float64
		var f float64
		if _, err := fmt.Sscan(c.JSON, &f); err != nil {
			return hh.Verdict{Skip: "json-literal"}
		}
		in = model.F64(f)
	}
	q, kind := exactOf(in)
	v := hh.Verdict{Classes: []string{"dest:" + c.Kind, "src:" + c.In.T}}
	if c.JSON != "" {
		v.Classes[1] = "src:json"
	}
	issues := res.Norm(false)
	coerced := false
	for _, is := range issues {
		if is.Code == "coerce" {
			coerced = true
		} else if is.Code == "invalid_json" {
			return hh.Verdict{Skip: "json-literal"}
		} else {
			return hh.Fail("unexpected issue %v", is)
		}
	}
	isInt := c.Kind == model.KInt || c.Kind == model.KInt32 || c.Kind == model.KInt64
	// non-trivial: the exact value is within 2 units of a range boundary of the destination or beyond, or non-finite
	near := kind != "rat"
	if kind == "rat" {
		if isInt {
			lo, hi := intBounds(c.Kind)
			t := truncRat(q)
			for _, b := range []*big.Int{lo, hi} {
				d := new(big.Int).Sub(t, b)
				if d.CmpAbs(big.NewInt(2)) <= 0 {
					near = true
				}
			}
			if t.Cmp(lo) < 0 || t.Cmp(hi) > 0 {
				near = true
			}
		} else {
			max := new(big.Rat).SetFloat64(math.MaxFloat64)
			if c.Kind == model.KFloat32 {
				max = new(big.Rat).SetFloat64(math.MaxFloat32)
			}
			abs := new(big.Rat).Abs(q)
			half := new(big.Rat).Quo(max, big.NewRat(2, 1))
			if abs.Cmp(half) > 0 {
				near = true
			}
		}
	}
	v.Nontrivial = near
	if coerced {
		v.Classes = append(v.Classes, "outcome:coerce-issue")
		return v // a coerce issue is always an acceptable outcome
	}
	v.Classes = append(v.Classes, "outcome:accepted")
	if kind == "" {
		return hh.Verdict{Skip: "numeric-meaning-of-input-not-modelled"}
	}
	if isInt {
		if kind != "rat" {
			return hh.Fail("%s input accepted into %s as %d", kind, c.Kind, destVal.Int())
		}
		lo, hi := intBounds(c.Kind)
		t := truncRat(q)
		if t.Cmp(lo) < 0 || t.Cmp(hi) > 0 {
			return hh.Fail("input %s (exact %s) is outside %s but was accepted as %d", model.JSON(in), q.FloatString(3), c.Kind, destVal.Int())
		}
		if big.NewInt(destVal.Int()).Cmp(t) != 0 {
			return hh.Fail("input %s (exact %s) became %d, expected %s", model.JSON(in), q.FloatString(3), destVal.Int(), t)
		}
		return v
	}
	d := destVal.Float()
	switch kind {
	case "nan":
		if !math.IsNaN(d) {
			return hh.Fail("NaN became %v", d)
		}
		return v
	case "+inf", "-inf":
		if !math.IsInf(d, map[string]int{"+inf": 1, "-inf": -1}[kind]) {
			return hh.Fail("%s became %v", kind, d)
		}
		return v
	}
	if math.IsInf(d, 0) || math.IsNaN(d) {
		return hh.Fail("finite input %s (exact %s) became %v in %s", model.JSON(in), q.FloatString(3), d, c.Kind)
	}
	bf := new(big.Float).SetPrec(4000).SetRat(q)
	f64, _ := bf.Float64()
	ok := false
	if c.Kind == model.KFloat64 {
		ok = d == f64
	} else {
		f32, _ := bf.Float32()
		ok = float32(d) == f32 || float32(d) == float32(f64) // narrowing through float64 is accepted (stated tolerance)
		if math.IsInf(float64(f32), 0) && math.IsInf(float64(float32(f64)), 0) {
			ok = false
		}
	}
	if !ok {
		return hh.Fail("input %s (exact %s) became %v in %s, which is not the nearest representable value", model.JSON(in), q.FloatString(6), d, c.Kind)
	}
	return v
}

var c18Kinds = []string{model.KInt, model.KInt32, model.KInt64, model.KFloat32, model.KFloat64}

func c18Boundary() []*big.Int {
	var out []*big.Int
	add := func(b *big.Int) {
		for _, d := range []int64{-2, -1, 0, 1, 2} {
			out = append(out, new(big.Int).Add(b, big.NewInt(d)))
		}
	}
	for _, e := range []uint{7, 8, 15, 16, 24, 31, 32, 53, 60, 63, 64} {
		p := new(big.Int).Lsh(big.NewInt(1), e)
		add(p)
		add(new(big.Int).Neg(p))
	}
	add(big.NewInt(0))
	e19, _ := new(big.Int).SetString("10000000000000000000", 10)
	add(e19)
	add(big.NewInt(3000000000))
	add(big.NewInt(-3000000000))
	return out
}

func c18Cells(yield0 func(c18Case)) {
	// every Go-typed source also as an element of a typed slice
	yield := func(c c18Case) {
		yield0(c)
		if c.JSON == "" && !c.InMap && c.In.T != "jsonnum" {
			c.InSlice = true
			yield0(c)
			c.InSlice, c.InMap, c.TypedMap = false, true, true
			yield0(c)
		}
	}
	fits := func(b *big.Int, bits int, signed bool) bool {
		if signed {
			lo := new(big.Int).Neg(new(big.Int).Lsh(big.NewInt(1), uint(bits-1)))
			hi := new(big.Int).Sub(new(big.Int).Lsh(big.NewInt(1), uint(bits-1)), big.NewInt(1))
			return b.Cmp(lo) >= 0 && b.Cmp(hi) <= 0
		}
		return b.Sign() >= 0 && b.BitLen() <= bits
	}
	floats := []float64{math.NaN(), math.Inf(1), math.Inf(-1), math.Copysign(0, -1), 0, 0.5, -0.5, 0.999999, -0.999999, 1.5, -1.5,
		2147483647.5, 2147483648.5, -2147483648.5, -2147483649.5, 3e9, -3e9, 9.223372036854775e18, 9.223372036854776e18, -9.223372036854776e18, -9.223372036854778e18,
		1e19, -1e19, 1e300, -1e300, math.MaxFloat64, math.MaxFloat32, math.MaxFloat32 * (1 + 1e-7), math.MaxFloat32 * 1.0000001, 3.4028235677973366e38, 3.4028236e38, 1e39,
		math.SmallestNonzeroFloat64, math.SmallestNonzeroFloat32, 1e-46, 16777217, 9007199254740993, 0.1, 1.0 / 3}
	f32s := []float32{float32(math.NaN()), float32(math.Inf(1)), math.MaxFloat32, 2147483648, -2147483904, 9.223372e18, 1e19, 0.5, -1.5, 16777216}
	strs := []string{"2147483647", "2147483648", "-2147483648", "-2147483649", "3000000000", "9223372036854775807", "9223372036854775808", "-9223372036854775808", "-9223372036854775809",
		"10000000000000000000", "1e19", "1e300", "1e-400", "1e400", "-1e400", "3.4028235e38", "3.4028236e38", "3.5e38", "1e39", "0.1", "1.5", "-1.5", "1e3", "1E3", "+5", "-0", "0x10", "0x1p4", "1_000", " 42", "42 ", "4 2",
		"010", "0100", "-017", "+010", "007", "00", "08", "-09", "0000000777", "010.5", "-00.5", "0e1", "01e2", "0b101", "0o17", "0B1", "0X1F", "-0x10", "1__0", "_1", "1_",
		"NaN", "nan", "Inf", "-Inf", "+inf", "infinity", "1e", "e1", ".5", "5.", "--1", "１２", "1.7976931348623157e308", "1.7976931348623159e308", "9007199254740993", "16777217", "0.30000000000000004", "123456789012345678901234567890"}
	jsons := []string{"3000000000", "3e9", "1e19", "1e300", "2147483648", "-2147483649", "9223372036854775807", "9223372036854775808", "1.5", "-0.5", "1e39", "3.5e38", "16777217", "9007199254740993", "0", "-0", "1e-400"}
	for _, kind := range c18Kinds {
		for _, b := range c18Boundary() {
			s := b.String()
			if fits(b, 64, true) {
				yield(c18Case{Kind: kind, In: model.Val{T: "int", S: s}})
				yield(c18Case{Kind: kind, In: model.Val{T: "int64", S: s}})
			}
			if fits(b, 32, true) {
				yield(c18Case{Kind: kind, In: model.Val{T: "int32", S: s}})
			}
			if fits(b, 16, true) {
				yield(c18Case{Kind: kind, In: model.Val{T: "int16", S: s}})
			}
			if fits(b, 8, true) {
				yield(c18Case{Kind: kind, In: model.Val{T: "int8", S: s}})
			}
			if fits(b, 64, false) {
				yield(c18Case{Kind: kind, In: model.Val{T: "uint64", S: s}})
				yield(c18Case{Kind: kind, In: model.Val{T: "uint", S: s}})
			}
			if fits(b, 32, false) {
				yield(c18Case{Kind: kind, In: model.Val{T: "uint32", S: s}})
			}
			if fits(b, 8, false) {
				yield(c18Case{Kind: kind, In: model.Val{T: "uint8", S: s}})
			}
			yield(c18Case{Kind: kind, In: model.Str(s)})
			yield(c18Case{Kind: kind, In: model.Str(s), InMap: true})
			if fits(b, 62, true) {
				// numeric user types that print themselves differently from the number they hold
				yield(c18Case{Kind: kind, In: model.Val{T: "cents", S: s}})
				yield(c18Case{Kind: kind, In: model.Val{T: "level", S: s}})
				yield(c18Case{Kind: kind, In: model.Val{T: "cents", S: s}, InMap: true})
			}
			yield(c18Case{Kind: kind, In: model.Val{T: "bigfloat", S: s + ".5"}})
			yield(c18Case{Kind: kind, In: model.Val{T: "bigfloat", S: s}})
			yield(c18Case{Kind: kind, In: model.Val{T: "jsonnum", S: s}})
			yield(c18Case{Kind: kind, In: model.Val{T: "jsonnum", S: s}, InMap: true})
			yield(c18Case{Kind: kind, In: model.Val{T: "jsonnum", S: s + ".5"}, InMap: true})
			if fits(b, 64, true) {
				yield(c18Case{Kind: kind, In: model.Val{T: "int64", S: s}, InMap: true})
			}
			f, _ := new(big.Float).SetInt(b).Float64()
			yield(c18Case{Kind: kind, In: model.F64(f)})
			yield(c18Case{Kind: kind, In: model.F64(f + 0.5)})
			yield(c18Case{Kind: kind, In: model.F64(f - 0.5)})
			yield(c18Case{Kind: kind, In: model.F32(float32(f))})
			if math.Abs(f) < 1e12 {
				// fractional floats a hair away from a whole number: truncation toward zero, not rounding
				for _, x := range []float64{math.Nextafter(f, math.Inf(1)), math.Nextafter(f, math.Inf(-1)), f + 1e-10, f - 1e-10, f + 0.9999999999, f - 0.9999999999} {
					yield(c18Case{Kind: kind, In: model.F64(x)})
					yield(c18Case{Kind: kind, In: model.Int(0), JSON: strconv.FormatFloat(x, 'g', -1, 64)})
				}
			}
			yield(c18Case{Kind: kind, In: model.Str(s + ".5")})
			yield(c18Case{Kind: kind, In: model.Str(s + "e0")})
			if b.Sign() >= 0 {
				yield(c18Case{Kind: kind, In: model.Str("0" + s)}) // zero-padded decimals are decimals
				yield(c18Case{Kind: kind, In: model.Str("+" + s)})
			} else {
				yield(c18Case{Kind: kind, In: model.Str("-00" + s[1:])})
			}
			yield(c18Case{Kind: kind, In: model.Int(0), JSON: s})
			yield(c18Case{Kind: kind, In: model.Int(0), JSON: s + ".5"})
		}
		for _, f := range floats {
			yield(c18Case{Kind: kind, In: model.F64(f)})
		}
		for _, f := range f32s {
			yield(c18Case{Kind: kind, In: model.F32(f)})
		}
		for _, s := range strs {
			yield(c18Case{Kind: kind, In: model.Str(s)})
		}
		for _, j := range jsons {
			yield(c18Case{Kind: kind, In: model.Int(0), JSON: j})
		}
	}
}

func TestC18(t *testing.T) {
	h := hh.Start(t, "C18",
		"destination in {Int, Int32, Int64, Float32, Float64} x source representation in {int, int8..int64, uint..uint64, float32, float64, json.Number, each also as a map entry of a struct schema, decimal / exponent / hex / padded / non-finite strings, JSON number through zjson} x magnitudes: exhaustive product over boundary sets (powers of two 2^7..2^64 +-2, 1e19, 3e9, type limits, fractional neighbours, MaxFloat32/64 neighbours, subnormals, -0, NaN, +-Inf) plus uniformly random values; non-trivial = exact value within 2 units of a range limit of the destination or beyond it (floats: beyond half the format's maximum) or non-finite; distinct = FNV-1a of the case JSON",
		"exact oracle (math/big): acceptable outcomes are a coerce issue, or a destination equal to the input truncated toward zero and inside the integer range, or (floats) the correctly rounded finite value; rounding to nearest when narrowing to float32 (directly or through float64) is accepted as the same number",
		"strings whose numeric meaning is not a plain decimal/exponent literal are only required not to be accepted as an integer outside the range (skipped when accepted)")
	defer h.Finish()
	hh.Enumerate(h, "boundary-product", c18Cells, propC18)
	hh.Sub(h, "random", h.N(20000, 200000), func(rt *rapid.T) c18Case {
		kind := rapid.SampledFrom(c18Kinds).Draw(rt, "kind")
		switch rapid.IntRange(0, 6).Draw(rt, "src") {
		case 6: // decimal digit strings as people type them: sign, zero padding, any digits
			s := rapid.SampledFrom([]string{"", "", "-", "+"}).Draw(rt, "sign") + strings.Repeat("0", rapid.IntRange(0, 3).Draw(rt, "pad")) +
				rapid.StringOfN(rapid.SampledFrom([]rune("0123456789")), 1, 20, -1).Draw(rt, "digits")
			if rapid.IntRange(0, 3).Draw(rt, "frac") == 0 {
				s += "." + rapid.StringOfN(rapid.SampledFrom([]rune("0123456789")), 0, 4, -1).Draw(rt, "fd")
			}
			return c18Case{Kind: kind, In: model.Str(s)}
		case 0:
			return c18Case{Kind: kind, In: model.Int64(rapid.Int64().Draw(rt, "i64")), InSlice: rapid.Bool().Draw(rt, "insl")}
		case 1:
			return c18Case{Kind: kind, In: model.Int(int(rapid.Int64().Draw(rt, "i"))), InSlice: rapid.Bool().Draw(rt, "insl")}
		case 2:
			if rapid.IntRange(0, 3).Draw(rt, "tm") == 0 {
				return c18Case{Kind: kind, In: model.F64(rapid.Float64().Draw(rt, "f64")), InMap: true, TypedMap: true}
			}
			return c18Case{Kind: kind, In: model.F64(rapid.Float64().Draw(rt, "f64")), InSlice: rapid.Bool().Draw(rt, "insl")}
		case 3:
			return c18Case{Kind: kind, In: model.F32(rapid.Float32().Draw(rt, "f32")), InSlice: rapid.Bool().Draw(rt, "insl")}
		case 4:
			f := rapid.Float64().Draw(rt, "fs")
			return c18Case{Kind: kind, In: model.Str(fmt.Sprintf(rapid.SampledFrom([]string{"%v", "%.0f", "%e", "%.3f"}).Draw(rt, "fmt"), f))}
		default:
			f := rapid.Float64().Draw(rt, "fj")
			return c18Case{Kind: kind, In: model.Int(0), JSON: fmt.Sprintf(rapid.SampledFrom([]string{"%v", "%.0f", "%e"}).Draw(rt, "jfmt"), f)}
		}
	}, propC18)
}
