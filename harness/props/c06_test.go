package props

import (
	"encoding/hex"
	"fmt"
	"net/http"
	"net/url"
	"os"
	"reflect"
	"strings"
	"testing"

	z "github.com/Oudwins/zog"
	"github.com/Oudwins/zog/parsers/zjson"
	"github.com/Oudwins/zog/zenv"
	"github.com/Oudwins/zog/zhttp"
	"pgregory.net/rapid"

	"verifharness/hh"
	"verifharness/model"
)

// C06: no input data can make Parse panic.

type c06Case struct {
	Root  *model.Node `json:"root"`
	FE    string      `json:"fe"`              // direct | json | http-json | form | query | env
	Input model.Val   `json:"input,omitempty"` // direct: the Go value (may contain wild leaves)
	Text  string      `json:"text,omitempty"`  // textual front ends: document / encoded pairs; env: "K=V\x1eK=V"
	// TextHex: the text as hex (bodies that are not valid UTF-8 survive the replay file this way)
	TextHex string `json:"textHex,omitempty"`
}

func propC06(c c06Case) hh.Verdict {
	if c.TextHex != "" {
		raw, err := hex.DecodeString(c.TextHex)
		if err != nil {
			return hh.Verdict{Skip: "bad-hex"}
		}
		c.Text = string(raw)
	}
	c.Root.Number()
	env := &model.Env{}
	schema, typ := model.Build(c.Root, env)
	dest := reflect.New(typ)
	var res *model.Result
	wild := 0
	switch c.FE {
	case "direct":
		countWild(c.Input, &wild)
		res = model.Run(schema, env, model.Exec{Mode: "parse"}, c.Input.Go(), dest)
	default:
		st, ok := schema.(*z.StructSchema)
		if !ok {
			return hh.Verdict{Skip: "front-end-needs-struct-root"}
		}
		var data any
		cleanup := func() {}
		switch c.FE {
		case "json":
			data = zjson.Decode(strings.NewReader(c.Text))
		case "http-json":
			req, _ := http.NewRequest("POST", "http://example.test/", strings.NewReader(c.Text))
			req.Header.Set("Content-Type", "application/json")
			data = zhttp.Request(req)
		case "form":
			req, _ := http.NewRequest("POST", "http://example.test/", strings.NewReader(c.Text))
			req.Header.Set("Content-Type", "application/x-www-form-urlencoded")
			data = zhttp.Request(req)
		case "query":
			req, err := http.NewRequest("GET", "http://example.test/?"+c.Text, nil)
			if err != nil {
				return hh.Verdict{Skip: "request-not-constructible"}
			}
			data = zhttp.Request(req)
		case "env":
			var set []string
			for _, kv := range strings.Split(c.Text, "\x1e") {
				k, v, ok := strings.Cut(kv, "=")
				if !ok || k == "" || strings.ContainsAny(k, "=\x00") || strings.ContainsRune(v, 0) {
					continue
				}
				os.Setenv(k, v)
				set = append(set, k)
			}
			cleanup = func() {
				for _, k := range set {
					os.Unsetenv(k)
				}
			}
			data = zenv.NewDataProvider()
		}
		res = &model.Result{IsMap: true, Dest: dest}
		func() {
			defer cleanup()
			defer func() {
				if p := recover(); p != nil {
					res.Panic = p
					res.Stack = stackOf()
				}
			}()
			res.Map = st.Parse(data, dest.Interface())
		}()
		wild = 1
	}
	if res.Panic != nil {
		return hh.Fail("Parse panicked [%s]: %v\n%s", c.FE, res.Panic, firstLines(res.Stack, 14))
	}
	// ... and neither does the next, unrelated execution that inherits the helper objects this one handed back
	var later any
	func() {
		defer func() { later = recover() }()
		processPrelude()
	}()
	if later != nil {
		return hh.Fail("after this Parse [%s] returned normally: %v", c.FE, later)
	}
	v := hh.Verdict{Classes: []string{"fe:" + c.FE, "root:" + c.Root.Kind}, Nontrivial: wild > 0}
	if res.NoIssues() {
		v.Classes = append(v.Classes, "result:nil")
	}
	return v
}

func stackOf() string {
	buf := make([]byte, 8192)
	n := runtimeStack(buf)
	return string(buf[:n])
}

func countWild(v model.Val, n *int) {
	switch v.T {
	case "wild", "ptr", "mapss", "mapsi", "mapsf", "mapsb", "mapsi64", "nmapss", "nmapsi", "nmapsf", "nmapsb", "nmap", "int8", "int16", "uint", "uint8", "uint16", "uint32", "uint64", "float32":
		*n++
	}
	for _, e := range v.L {
		countWild(e, n)
	}
	for _, kv := range v.M {
		countWild(kv.V, n)
	}
}

var wildNames = model.WildNames()

func wildVal(rt *rapid.T) model.Val {
	return model.Val{T: "wild", S: rapid.SampledFrom(wildNames).Draw(rt, "wild")}
}

// wildify replaces random subtrees of a well-formed input with wild values.
func wildify(rt *rapid.T, v *model.Val, p int) {
	if rapid.IntRange(0, 99).Draw(rt, "wq") < p {
		*v = wildVal(rt)
		return
	}
	if v.T == "string" && rapid.IntRange(0, 99).Draw(rt, "hq") < p {
		// a string leaf keeps its type but gets hostile content (what the string tests' helpers have to survive)
		v.S = rapid.SampledFrom(hostileTexts).Draw(rt, "hs")
		return
	}
	switch v.T {
	case "strlist", "intlist", "f64list", "boollist":
		v.T = "list" // typed lists cannot hold wild elements
	}
	for i := range v.L {
		wildify(rt, &v.L[i], p)
	}
	for i := range v.M {
		was := v.M[i].V.T
		wildify(rt, &v.M[i].V, p)
		if v.M[i].V.T != was {
			switch v.T {
			case "mapss", "mapsi", "mapsf", "mapsb", "mapsi64", "nmapss", "nmapsi", "nmapsf", "nmapsb":
				v.T = "map" // typed maps cannot hold wild values
			}
		}
	}
}

func genC06(rt *rapid.T, cfg model.GenCfg) c06Case {
	fe := rapid.SampledFrom([]string{"direct", "direct", "direct", "direct", "json", "http-json", "form", "query", "env"}).Draw(rt, "fe")
	if fe != "direct" {
		cfg.RootKinds = []string{model.KStruct}
	}
	g := model.NewGen(rt, cfg)
	root := g.GenNode(cfg.MaxDepth, true)
	root.Number()
	typed := g.GenTyped(root)
	valid, _ := g.Render(root, typed, "root")
	if fe == "direct" && rapid.IntRange(0, 9).Draw(rt, "chain") == 0 {
		// a very deep document: a chain of 8-20 containers (the executions of successive cases share the object pools)
		root, valid = model.GenChain(rt, rapid.IntRange(8, 20).Draw(rt, "depth"))
	}
	c := c06Case{Root: root, FE: fe}
	switch fe {
	case "direct":
		switch rapid.IntRange(0, 9).Draw(rt, "shape") {
		case 0, 1:
			c.Input = wildVal(rt) // the whole input is wild
		case 2:
			c.Input = model.Val{T: "ptr", L: []model.Val{valid}} // pointer to a well-formed input
			if rapid.Bool().Draw(rt, "pp") {
				c.Input = model.Val{T: "ptr", L: []model.Val{c.Input}}
			}
		default:
			c.Input = valid
			wildify(rt, &c.Input, rapid.SampledFrom([]int{5, 15, 40}).Draw(rt, "wp"))
		}
	case "json", "http-json":
		var sb strings.Builder
		doc := ""
		if err := model.JSONOf(root, valid, &sb); err == nil {
			doc = sb.String()
		}
		switch rapid.IntRange(0, 9).Draw(rt, "jshape") {
		case 0:
			doc = rapid.SampledFrom([]string{`{}`, `null`, `[]`, `1`, `"s"`, `true`, ``, ` `, `{`, `}`, `{"a"`, `{"a":}`, `[{}]`, `{"":1}`, `{"a":1,"a":2}`, `1e999`, `{"name":1e999}`, `{"name":123456789012345678901234567890}`, `{"name":-0}`, "{\"name\":\"\xff\"}", `{"name":"\ud800"}`}).Draw(rt, "jfixed")
		case 5:
			// byte-level prefixes a body may start with: byte order marks (whole and cut short), every short byte string
			if rapid.Bool().Draw(rt, "bom") {
				doc = rapid.SampledFrom([]string{"\xef", "\xef\xbb", "\xef\xbb\xbf", "\xfe\xff", "\xff\xfe", "\xff", "\x00", "\xef\xbb\xbf "}).Draw(rt, "bomv") + rapid.SampledFrom([]string{"", "", doc, "{}"}).Draw(rt, "bomrest")
			} else {
				doc = string(rapid.SliceOfN(rapid.Byte(), 1, 3).Draw(rt, "rawbytes"))
			}
		case 1:
			if len(doc) > 0 {
				doc = doc[:rapid.IntRange(0, len(doc)).Draw(rt, "cut")] // truncated
			}
		case 2:
			doc = strings.Repeat("[", 300) + strings.Repeat("]", 300)
		case 3:
			doc = strings.Repeat(`{"name":`, 200) + `1` + strings.Repeat("}", 200)
		case 4:
			// every leaf replaced by another JSON value
			doc = replaceJSONLeaves(rt, doc)
		}
		c.Text = doc
	case "form", "query":
		frag := []string{"=", "&", "%zz", "%", "+", ";", "[]", "%5B%5D", "a", "1", "true", "x y", "\xff", "é", "=&=", "%00"}
		var keys []string
		root.Walk(func(n *model.Node) {
			for _, f := range n.Fields {
				keys = append(keys, f.Key)
			}
		})
		var sb strings.Builder
		for i, k := 0, rapid.IntRange(0, 8).Draw(rt, "npairs"); i < k; i++ {
			if i > 0 {
				sb.WriteByte('&')
			}
			if len(keys) > 0 && rapid.Bool().Draw(rt, "realkey") {
				sb.WriteString(rapid.SampledFrom(keys).Draw(rt, "k"))
				if rapid.IntRange(0, 3).Draw(rt, "br") == 0 {
					sb.WriteString("[]")
				}
			} else {
				sb.WriteString(rapid.SampledFrom(frag).Draw(rt, "kf"))
			}
			sb.WriteByte('=')
			if rapid.Bool().Draw(rt, "hostile") {
				sb.WriteString(url.QueryEscape(rapid.SampledFrom(hostileStrings).Draw(rt, "vh")))
			} else {
				sb.WriteString(rapid.SampledFrom(frag).Draw(rt, "vf"))
			}
		}
		c.Text = sb.String()
	case "env":
		var parts []string
		root.Walk(func(n *model.Node) {
			for _, f := range n.Fields {
				if rapid.Bool().Draw(rt, "setenv") {
					parts = append(parts, f.Key+"="+rapid.SampledFrom(hostileStrings).Draw(rt, "ev"))
				}
			}
		})
		c.Text = strings.Join(parts, "\x1e")
	}
	return c
}

// hostileStrings: short string values that text front ends tend to treat specially: every ASCII punctuation
// character on its own (a lone quote, a lone bracket ...), unbalanced and balanced pairs, escapes, blanks, numbers
// at the edge of their syntax.
var hostileStrings = func() []string {
	out := []string{"", " ", "1", "abc", "true", "\xff", "  7  ", "2024-01-01T00:00:00Z", "1e999", "a,b",
		`""`, `''`, `"x`, `x"`, `'x`, `"x"`, `'x'`, `" "`, `"'`, "``", `\\`, `\\"`, `\\n`, "$", "${", "${X}", "$X", "$$", "%", "%s", "%!d(string=x)",
		"[", "]", "[]", "[1,2]", "{", "}", "{}", `{"a":1}`, "a=b", "=", "==", "a b", "\t", "\n", "a\nb", "-", "--", "+", "+1", "-0", ".", "..", "0x", "0x1", "1_0", "é", "日本", "\u202e",
		"null", "nil", "NaN", "Inf", "on", "off", "yes", "T", "F", "#", "#x", ";", "a;b", "&", "a&b", "?", "*", "~", "^", "|", "<", ">", "<x>", "(", ")", "()", "!", "@", "a@b.c", ":", "::", "/", "//", "a/b"}
	for c := 33; c < 127; c++ {
		if !(c >= '0' && c <= '9') && !(c >= 'a' && c <= 'z') && !(c >= 'A' && c <= 'Z') {
			out = append(out, string(rune(c)), " "+string(rune(c))+" ", string(rune(c))+string(rune(c)))
		}
	}
	return out
}()

// hostileTexts: hostileStrings plus texts that the parsers behind the string tests (net/url, regexp, mail-like
// grammars, UUID) reject or barely accept
var hostileTexts = append(append([]string{}, hostileStrings...),
	"http://exa mple.com/", "http://x/%zz", "http://[::1/", "http://[::1]:80/", "://x", "http://x:port/", "http://:8080", "http://", "http:", "http:/x", "//x", "mailto:a@b.c",
	"http://a\x00b/", "http://a/\x7f", "http://user:pa ss@host/", "http://host/#%zz", "http://host/?%zz", "HTTP://HOST", "http://例え.jp/", "http://a..b/", "http://-a/",
	"a@b@c", "@", "a@", "@b", "a@b..c", "a@-b.c", "\"a b\"@c.d", "a@[1.2.3.4]", "a@b.c.", ".a@b.c",
	"00000000-0000-0000-0000-00000000000", "00000000-0000-0000-0000-0000000000000", "g0000000-0000-0000-0000-000000000000", "{00000000-0000-0000-0000-000000000000}", "urn:uuid:00000000-0000-0000-0000-000000000000",
	"(", ")", "[a-", "a{2,1}", "\\", "(?i)", "^$", "\\p{Greek}")

func replaceJSONLeaves(rt *rapid.T, doc string) string {
	repl := []string{`null`, `{}`, `[]`, `[[]]`, `1e308`, `-1`, `"x"`, `true`, `{"name":{}}`, `[null]`, `0.5`, `""`}
	var sb strings.Builder
	inStr := false
	for i := 0; i < len(doc); i++ {
		ch := doc[i]
		if ch == '"' && (i == 0 || doc[i-1] != '\\') {
			inStr = !inStr
		}
		if !inStr && ch == ':' && rapid.IntRange(0, 2).Draw(rt, "rl") == 0 {
			sb.WriteByte(':')
			sb.WriteString(rapid.SampledFrom(repl).Draw(rt, "rv"))
			// skip the original value up to the next , or } at depth 0
			depth := 0
			j := i + 1
			s2 := false
			for ; j < len(doc); j++ {
				d := doc[j]
				if d == '"' && doc[j-1] != '\\' {
					s2 = !s2
				}
				if s2 {
					continue
				}
				if d == '{' || d == '[' {
					depth++
				}
				if d == '}' || d == ']' {
					if depth == 0 {
						break
					}
					depth--
				}
				if d == ',' && depth == 0 {
					break
				}
			}
			i = j - 1
			continue
		}
		sb.WriteByte(ch)
	}
	return sb.String()
}

func TestC06(t *testing.T) {
	h := hh.Start(t, "C06",
		"cases = well-formed (schema, destination) pairs from the builder (all node kinds incl. Preprocess and Custom, >8 fields, field names up to 64 bytes) x inputs: Go values in which random subtrees of a valid input are replaced by wild values from a registry of ~120 (named and unnamed maps of 20 element types, nil/typed-nil values, pointer chains to depth 4, structs with exported / unexported / embedded / pointer / func / chan fields, every numeric width incl. NaN/Inf/extremes, complex, json.Number, []byte, invalid UTF-8, 200 kB strings, errors), whole-wild inputs, pointers to valid inputs; JSON text (valid, {}, non-objects, truncated, deeply nested, duplicate keys, huge numbers, leaves replaced); form/query strings from hostile fragments; environment values; Custom[T] schemas for 20 shapes of T at 5 positions x the registry; non-trivial = the input contains a value outside {string,int,float64,bool,map[string]any,[]any,time.Time} or comes through a textual front end; distinct = FNV-1a of the case JSON",
		"oracle: recover() around Parse - any panic is a violation (harness callbacks are nil-safe and never panic); termination is guarded by the driver's time limit (exit 2)",
		"wild values are finite and acyclic; types outside the registry (cgo handles, unsafe.Pointer) are not generated")
	defer h.Finish()
	cfg := model.DefaultCfg("parse")
	cfg.PPre, cfg.ManyFields, cfg.LongKeys = 0.06, true, true
	cfg.PostBehaviours = []string{"record", "mutate"}
	cfg.PPost, cfg.PVary, cfg.PAbsent, cfg.PJunk = 0.1, 0.2, 0.1, 0.05
	if h.Thorough() {
		cfg.MaxDepth, cfg.MaxFields, cfg.MaxElems = 4, 6, 5
	}
	hh.Sub(h, "wild-inputs", h.N(30000, 200000), func(rt *rapid.T) c06Case { return genC06(rt, cfg) }, propC06)
	// every wild value alone against every root kind
	hh.Enumerate(h, "wild-x-kind", func(yield func(c06Case)) {
		kinds := []*model.Node{
			{Kind: model.KString}, {Kind: model.KInt}, {Kind: model.KInt32}, {Kind: model.KInt64}, {Kind: model.KFloat32}, {Kind: model.KFloat64}, {Kind: model.KBool}, {Kind: model.KTime},
			{Kind: model.KSlice, Elem: &model.Node{Kind: model.KString}}, {Kind: model.KSlice, Elem: &model.Node{Kind: model.KInt}},
			{Kind: model.KSlice, Elem: &model.Node{Kind: model.KStruct, Fields: []model.Field{{Key: "name", Node: &model.Node{Kind: model.KString}}}}},
			{Kind: model.KPtr, Elem: &model.Node{Kind: model.KString}}, {Kind: model.KPtr, Elem: &model.Node{Kind: model.KStruct, Fields: []model.Field{{Key: "name", Node: &model.Node{Kind: model.KString}}}}},
			{Kind: model.KCustom, CustomT: "string", CustomFn: "pass", Tests: []model.TestSpec{{Name: "func", Str: "pass", Opts: model.Opts{Code: "c"}}}},
			{Kind: model.KStruct, Fields: []model.Field{{Key: "name", Node: &model.Node{Kind: model.KString, Req: true}}, {Key: "age", Node: &model.Node{Kind: model.KInt}}, {Key: "a", Node: &model.Node{Kind: model.KString}},
				{Key: "tags", Node: &model.Node{Kind: model.KSlice, Elem: &model.Node{Kind: model.KString}}}, {Key: "email", Node: &model.Node{Kind: model.KPtr, Elem: &model.Node{Kind: model.KString}}},
				{Key: "addr", Node: &model.Node{Kind: model.KStruct, Fields: []model.Field{{Key: "zip", Node: &model.Node{Kind: model.KString}}}}}}},
			{Kind: model.KStruct, Fields: []model.Field{{Key: "Name", Node: &model.Node{Kind: model.KString}}, {Key: "Age", Node: &model.Node{Kind: model.KPtr, Elem: &model.Node{Kind: model.KInt}}}, {Key: "Next", Node: &model.Node{Kind: model.KPtr, Elem: &model.Node{Kind: model.KStruct, Fields: []model.Field{{Key: "Name", Node: &model.Node{Kind: model.KString}}}}}}}},
			{Kind: model.KStruct, Fields: []model.Field{{Key: "thisIsAVeryLongSchemaKeyWithMoreThanThirtyTwoBytesInIt", Node: &model.Node{Kind: model.KString}}}},
		}
		for _, k := range kinds {
			for _, w := range wildNames {
				n := model.RoundTrip(*k)
				yield(c06Case{Root: &n, FE: "direct", Input: model.Val{T: "wild", S: w}})
				// and nested one level down
				yield(c06Case{Root: &n, FE: "direct", Input: model.Map(model.KV{K: "name", V: model.Val{T: "wild", S: w}}, model.KV{K: "addr", V: model.Val{T: "wild", S: w}}, model.KV{K: "tags", V: model.Val{T: "wild", S: w}})})
				yield(c06Case{Root: &n, FE: "direct", Input: model.List(model.Val{T: "wild", S: w}, model.Nil())})
			}
		}
	}, propC06)
	// every body of one byte, and every body of two bytes drawn from the bytes that start or continue something (JSON
	// punctuation, digits, quotes, white space, UTF-8 lead and continuation bytes, byte order marks), through both JSON front ends
	hh.Enumerate(h, "short-bodies", func(yield func(c06Case)) {
		root := model.Node{Kind: model.KStruct, Fields: []model.Field{{Key: "name", Node: &model.Node{Kind: model.KString, Req: true}}, {Key: "age", Node: &model.Node{Kind: model.KInt}}}}
		special := []byte("{}[]\",:0-1.eEtfn \t\n\r\\/u\x00\x7f\x80\xbb\xbf\xc0\xc2\xe0\xef\xf0\xf4\xf8\xfe\xff")
		for _, fe := range []string{"json", "http-json"} {
			for b := 0; b < 256; b++ {
				n := model.RoundTrip(root)
				yield(c06Case{Root: &n, FE: fe, TextHex: hex.EncodeToString([]byte{byte(b)})})
			}
			for _, a := range special {
				for _, b := range special {
					n := model.RoundTrip(root)
					yield(c06Case{Root: &n, FE: fe, TextHex: hex.EncodeToString([]byte{a, b})})
				}
			}
		}
	}, propC06)
	// Custom[T] for user types of every shape x every wild value x position
	hh.Enumerate(h, "custom-types", c06CustomCells, propC06Custom)
	_ = fmt.Sprint
}
