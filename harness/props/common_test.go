package props

import (
	"fmt"
	"reflect"

	"verifharness/model"
)

// built is a case turned into real objects.
type built struct {
	env    *model.Env
	schema any
	typ    reflect.Type
}

// newDest allocates the destination for a case: for Validate it is filled from
// the typed input; for Parse it is zero or pre-filled with sentinels.
func newDest(typ reflect.Type, c model.Case, prefill bool) reflect.Value {
	d := reflect.New(typ)
	if c.Exec.Mode == "validate" {
		model.SetFromVal(d.Elem(), c.Input)
	} else if prefill {
		model.Prefill(d.Elem(), 1)
	}
	return d
}

// runSpec runs the executable specification against a clone of the destination.
func runSpec(c model.Case, dest reflect.Value) (*model.SpecOut, reflect.Value) {
	exp := model.DeepCopy(dest.Elem())
	var in any
	if c.Exec.Mode == "parse" {
		in = c.Input.Go()
	}
	return model.Spec(c.Root, model.SpecCfg{Mode: c.Exec.Mode}, in, exp), exp
}

func fmtIss(a []model.Iss) string { return fmt.Sprintf("%v", a) }

// shape classes of a schema, for distribution histograms.
func shapeClasses(n *model.Node) []string {
	var cls []string
	nodes, catch, structs, slices, ptrs := 0, 0, 0, 0, 0
	n.Walk(func(x *model.Node) {
		nodes++
		if x.Catch != nil {
			catch++
		}
		switch x.Kind {
		case model.KStruct:
			structs++
		case model.KSlice:
			slices++
		case model.KPtr:
			ptrs++
		}
	})
	cls = append(cls, "root:"+n.Kind)
	if catch > 0 {
		cls = append(cls, "has-catch")
	}
	if structs > 0 {
		cls = append(cls, "has-struct")
	}
	if slices > 0 {
		cls = append(cls, "has-slice")
	}
	if ptrs > 0 {
		cls = append(cls, "has-ptr")
	}
	if nodes >= 5 {
		cls = append(cls, "nodes>=5")
	}
	return cls
}
