package props

import (
	"fmt"
	z "github.com/Oudwins/zog"
	"reflect"

	"verifharness/model"
)

// built is a case turned into real objects.
type built struct {
	env    *model.Env
	schema any
	typ    reflect.Type
}

// newDest allocates the destination for a case: for Validate it is filled from
// the typed input; for Parse it is zero or pre-filled with sentinels.
func newDest(typ reflect.Type, c model.Case, prefill bool) reflect.Value {
	d := reflect.New(typ)
	if c.Exec.Mode == "validate" {
		model.SetFromVal(d.Elem(), c.Input)
	} else if prefill {
		model.Prefill(d.Elem(), 1)
	}
	return d
}

// runSpec runs the executable specification against a clone of the destination.
func runSpec(c model.Case, dest reflect.Value) (*model.SpecOut, reflect.Value) {
	exp := model.DeepCopy(dest.Elem())
	var in any
	if c.Exec.Mode == "parse" {
		in = c.Input.Go()
	}
	return model.Spec(c.Root, model.SpecCfg{Mode: c.Exec.Mode}, in, exp), exp
}

func fmtIss(a []model.Iss) string { return fmt.Sprintf("%v", a) }

// shape classes of a schema, for distribution histograms.
func shapeClasses(n *model.Node) []string {
	var cls []string
	nodes, catch, structs, slices, ptrs := 0, 0, 0, 0, 0
	n.Walk(func(x *model.Node) {
		nodes++
		if x.Catch != nil {
			catch++
		}
		switch x.Kind {
		case model.KStruct:
			structs++
		case model.KSlice:
			slices++
		case model.KPtr:
			ptrs++
		}
	})
	cls = append(cls, "root:"+n.Kind)
	if catch > 0 {
		cls = append(cls, "has-catch")
	}
	if structs > 0 {
		cls = append(cls, "has-struct")
	}
	if slices > 0 {
		cls = append(cls, "has-slice")
	}
	if ptrs > 0 {
		cls = append(cls, "has-ptr")
	}
	if nodes >= 5 {
		cls = append(cls, "nodes>=5")
	}
	return cls
}

// outcome of running one case once against zog and the specification.
type conformance struct {
	spec    *model.SpecOut
	expDest reflect.Value
	res     *model.Result
}

// processPrelude is the life a process has had before the execution under test: an invalid input whose issues were
// handed back through the Collect helper, and an execution that a panicking user callback (three levels down) tore
// apart while the caller recovered, as any HTTP middleware does. Every case starts from that same state, so a case
// remains a pure function of its own content.
var preludeSchema = z.Struct(z.Schema{
	"user": z.Struct(z.Schema{
		"name": z.String().Required().Min(5),
		"tags": z.Slice(z.String().TestFunc(func(v any, ctx z.Ctx) bool {
			if s, _ := v.(*string); (s != nil && *s == "boom") || v == "boom" {
				panic("user callback panics")
			}
			return true
		})),
	}),
	"age": z.Int().GT(18).Catch(21),
})

type preludeDest struct {
	User struct {
		Name string
		Tags []string
	}
	Age int
}

func processPrelude() {
	defer func() {
		if p := recover(); p != nil {
			panic(fmt.Sprintf("zog panicked in an unrelated, valid execution that ran before / after this case on the same object pools (process prelude): %v", p))
		}
	}()
	var d preludeDest
	if errs := preludeSchema.Parse(map[string]any{"user": map[string]any{"name": "ab", "tags": []any{"x"}}, "age": 3}, &d); errs != nil {
		z.Issues.CollectMap(errs)
	}
	if errs := preludeSchema.Parse(map[string]any{"user": map[string]any{"name": "abc"}}, &d); errs != nil {
		_ = z.Issues.SanitizeMapAndCollect(errs) // ... and one through the sanitizing helper
	}
	func() {
		defer func() { _ = recover() }()
		var d2 preludeDest
		preludeSchema.Parse(map[string]any{"user": map[string]any{"name": "abcdef", "tags": []any{"a", "boom"}}, "age": 30}, &d2)
	}()
}

// conform builds the case, runs the specification and runs zog reps times,
// comparing issues (multiset), nil-ness, on success the whole destination
// (pre-filled with sentinels in Parse when prefill is set) and the invocation
// counts of recorder tests. It returns the first discrepancy.
func conform(c model.Case, reps int, prefill, checkDest, checkRan bool) (*conformance, string, string) {
	c.Root.Number()
	env := &model.Env{}
	schema, typ := model.Build(c.Root, env)
	spec, exp := runSpec(c, newDest(typ, c, prefill))
	out := &conformance{spec: spec, expDest: exp}
	if spec.Unknown != "" {
		return out, "", "spec-undetermined"
	}
	var in any
	if c.Exec.Mode == "parse" {
		in = c.Input.Go()
	}
	processPrelude()
	for r := 0; r < reps; r++ {
		res := model.Run(schema, env, c.Exec, in, newDest(typ, c, prefill))
		out.res = res
		if res.Panic != nil {
			return out, fmt.Sprintf("panic: %v", res.Panic), ""
		}
		got := res.Norm(false)
		if !model.EqualIssSpec(got, spec.Issues) {
			return out, fmt.Sprintf("issues differ (run %d): got %s want %s", r, fmtIss(got), fmtIss(spec.Issues)), ""
		}
		if res.NoIssues() != (len(spec.Issues) == 0) {
			return out, fmt.Sprintf("nil-ness: result nil=%v but %d violations expected", res.NoIssues(), len(spec.Issues)), ""
		}
		if checkDest && len(spec.Issues) == 0 && !spec.DestUnknown {
			g, w := model.CanonJSON(res.Dest.Elem()), model.CanonJSON(exp)
			if g != w {
				return out, fmt.Sprintf("destination differs (run %d): got %s want %s", r, g, w), ""
			}
		}
		if checkRan {
			ran := map[int]int{}
			for _, ev := range res.Log {
				switch ev.Kind {
				case "test":
					ran[ev.Node*1000+ev.Idx]++
				case "custom":
					ran[ev.Node*1000+999]++
				}
			}
			for k, v := range spec.Ran {
				if ran[k] != v {
					return out, fmt.Sprintf("test n%d#%d ran %d times, expected %d (run %d)", k/1000, k%1000, ran[k], v, r), ""
				}
			}
			for k, v := range ran {
				if spec.Ran[k] != v {
					return out, fmt.Sprintf("test n%d#%d ran %d times, expected %d (run %d)", k/1000, k%1000, v, spec.Ran[k], r), ""
				}
			}
		}
	}
	return out, "", ""
}
