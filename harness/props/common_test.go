package props

import (
	"fmt"
	z "github.com/Oudwins/zog"
	"github.com/Oudwins/zog/parsers/zjson"
	"reflect"
	"strings"

	"verifharness/model"
)

// built is a case turned into real objects.
type built struct {
	env    *model.Env
	schema any
	typ    reflect.Type
}

// newDest allocates the destination for a case: for Validate it is filled from
// the typed input; for Parse it is zero or pre-filled with sentinels.
func newDest(typ reflect.Type, c model.Case, prefill bool) reflect.Value {
	d := reflect.New(typ)
	if c.Exec.Mode == "validate" {
		model.SetFromVal(d.Elem(), c.Input)
	} else if prefill {
		model.Prefill(d.Elem(), 1)
	}
	return d
}

// runSpec runs the executable specification against a clone of the destination.
func runSpec(c model.Case, dest reflect.Value) (*model.SpecOut, reflect.Value) {
	exp := model.DeepCopy(dest.Elem())
	var in any
	if c.Exec.Mode == "parse" {
		in = c.Input.Go()
	}
	return model.Spec(c.Root, model.SpecCfg{Mode: c.Exec.Mode}, in, exp), exp
}

func fmtIss(a []model.Iss) string { return fmt.Sprintf("%v", a) }

// shape classes of a schema, for distribution histograms.
func shapeClasses(n *model.Node) []string {
	var cls []string
	nodes, catch, structs, slices, ptrs := 0, 0, 0, 0, 0
	n.Walk(func(x *model.Node) {
		nodes++
		if x.Catch != nil {
			catch++
		}
		switch x.Kind {
		case model.KStruct:
			structs++
		case model.KSlice:
			slices++
		case model.KPtr:
			ptrs++
		}
	})
	cls = append(cls, "root:"+n.Kind)
	if catch > 0 {
		cls = append(cls, "has-catch")
	}
	if structs > 0 {
		cls = append(cls, "has-struct")
	}
	if slices > 0 {
		cls = append(cls, "has-slice")
	}
	if ptrs > 0 {
		cls = append(cls, "has-ptr")
	}
	if nodes >= 5 {
		cls = append(cls, "nodes>=5")
	}
	return cls
}

// outcome of running one case once against zog and the specification.
type conformance struct {
	spec    *model.SpecOut
	expDest reflect.Value
	res     *model.Result
}

// processPrelude is the life a process has had before the execution under test: an invalid input whose issues were
// handed back through the Collect helper, and an execution that a panicking user callback (three levels down) tore
// apart while the caller recovered, as any HTTP middleware does. Every case starts from that same state, so a case
// remains a pure function of its own content.
var preludeSchema = z.Struct(z.Schema{
	"user": z.Struct(z.Schema{
		"name": z.String().Required().Min(5),
		"tags": z.Slice(z.String().TestFunc(func(v any, ctx z.Ctx) bool {
			if s, _ := v.(*string); (s != nil && *s == "boom") || v == "boom" {
				panic("user callback panics")
			}
			return true
		})),
	}),
	"age": z.Int().GT(18).Catch(21),
})

// preludeDeep: three context levels (struct, list, struct) with struct-level callbacks that insist on being handed
// their own node's value, as user code written after the documentation (val.(*Order)) does.
type preludeLine struct {
	Sku string
	Qty int
}
type preludeOrder struct {
	ID    string
	Lines []preludeLine
}

var preludeDeep = z.Struct(z.Schema{
	"ID": z.String().Required(),
	"lines": z.Slice(z.Struct(z.Schema{"sku": z.String().Required().Min(2), "qty": z.Int().GT(0)}).TestFunc(func(v any, ctx z.Ctx) bool {
		if _, ok := v.(*preludeLine); !ok {
			panic(fmt.Sprintf("a struct-level test of a list element was handed %T, not a pointer to its element", v))
		}
		return true
	})).Min(1),
}).TestFunc(func(v any, ctx z.Ctx) bool {
	if _, ok := v.(*preludeOrder); !ok {
		panic(fmt.Sprintf("the root struct's test was handed %T, not a pointer to the destination", v))
	}
	return true
}).PostTransform(func(v any, ctx z.Ctx) error {
	if _, ok := v.(*preludeOrder); !ok {
		panic(fmt.Sprintf("the root struct's PostTransform was handed %T, not a pointer to the destination", v))
	}
	return nil
})

var preludePtr = z.Ptr(z.Struct(z.Schema{"name": z.String().Required()}))

type preludeDest struct {
	User struct {
		Name string
		Tags []string
	}
	Age int
}

func processPrelude() {
	defer func() {
		if p := recover(); p != nil {
			panic(fmt.Sprintf("zog panicked in an unrelated, valid execution that ran before / after this case on the same object pools (process prelude): %v", p))
		}
	}()
	var d preludeDest
	if errs := preludeSchema.Parse(map[string]any{"user": map[string]any{"name": "ab", "tags": []any{"x"}}, "age": 3}, &d); errs != nil {
		z.Issues.CollectMap(errs)
	}
	if errs := preludeSchema.Parse(map[string]any{"user": map[string]any{"name": "abc"}}, &d); errs != nil {
		_ = z.Issues.SanitizeMapAndCollect(errs) // ... and one through the sanitizing helper
	}
	func() {
		defer func() { _ = recover() }()
		var d2 preludeDest
		preludeSchema.Parse(map[string]any{"user": map[string]any{"name": "abcdef", "tags": []any{"a", "boom"}}, "age": 30}, &d2)
	}()
	// a request with an undecodable body for an optional-body endpoint (pointer root) ...
	var pp *struct{ Name string }
	if errs := preludePtr.Parse(zjson.Decode(strings.NewReader(`{"name": "tr`)), &pp); errs != nil {
		z.Issues.CollectMap(errs)
	}
	// ... failing executions of a top-level primitive (list results), one handed back, one dropped ...
	var s1 string
	if errs := preludeString.Parse("ab", &s1); errs != nil {
		z.Issues.CollectList(errs)
	}
	_ = preludeString.Validate(&s1)
	// ... and ordinary traffic: valid and invalid orders, three context levels deep
	var o preludeOrder
	preludeDeep.Parse(map[string]any{"ID": "o1", "lines": []any{map[string]any{"sku": "ab", "qty": 2}, map[string]any{"sku": "cd", "qty": 1}}}, &o)
	if errs := preludeDeep.Parse(map[string]any{"ID": "o2", "lines": []any{map[string]any{"sku": "a", "qty": 0}}}, &o); errs != nil {
		z.Issues.CollectMap(errs)
	}
	o = preludeOrder{ID: "o3", Lines: []preludeLine{{Sku: "xy", Qty: 1}}}
	preludeDeep.Validate(&o)
}

var preludeString = z.String().Required().Min(5, z.IssueCode("prelude_min")).Email(z.IssueCode("prelude_email"))

// conform builds the case, runs the specification and runs zog reps times,
// comparing issues (multiset), nil-ness, on success the whole destination
// (pre-filled with sentinels in Parse when prefill is set) and the invocation
// counts of recorder tests. It returns the first discrepancy.
func conform(c model.Case, reps int, prefill, checkDest, checkRan bool) (*conformance, string, string) {
	c.Root.Number()
	env := &model.Env{}
	schema, typ := model.Build(c.Root, env)
	spec, exp := runSpec(c, newDest(typ, c, prefill))
	out := &conformance{spec: spec, expDest: exp}
	if spec.Unknown != "" {
		return out, "", "spec-undetermined"
	}
	var in any
	if c.Exec.Mode == "parse" {
		in = c.Input.Go()
	}
	processPrelude()
	for r := 0; r < reps; r++ {
		res := model.Run(schema, env, c.Exec, in, newDest(typ, c, prefill))
		out.res = res
		if res.Panic != nil {
			return out, fmt.Sprintf("panic: %v", res.Panic), ""
		}
		got := res.Norm(false)
		if !model.EqualIssSpec(got, spec.Issues) {
			return out, fmt.Sprintf("issues differ (run %d): got %s want %s", r, fmtIss(got), fmtIss(spec.Issues)), ""
		}
		if res.NoIssues() != (len(spec.Issues) == 0) {
			return out, fmt.Sprintf("nil-ness: result nil=%v but %d violations expected", res.NoIssues(), len(spec.Issues)), ""
		}
		// the result belongs to the caller: it still lists exactly these violations after the process went on with
		// other (failing, list- and map-returning) executions
		processPrelude()
		if again := res.Norm(false); !model.EqualIss(got, again) {
			return out, fmt.Sprintf("the returned issues changed while the caller held them and other executions ran (run %d): were %s, now %s", r, fmtIss(got), fmtIss(again)), ""
		}
		if checkDest && len(spec.Issues) == 0 && !spec.DestUnknown {
			g, w := model.CanonJSON(res.Dest.Elem()), model.CanonJSON(exp)
			if g != w {
				return out, fmt.Sprintf("destination differs (run %d): got %s want %s", r, g, w), ""
			}
		}
		if checkRan {
			ran := map[int]int{}
			for _, ev := range res.Log {
				switch ev.Kind {
				case "test":
					ran[ev.Node*1000+ev.Idx]++
				case "custom":
					ran[ev.Node*1000+999]++
				}
			}
			for k, v := range spec.Ran {
				if ran[k] != v {
					return out, fmt.Sprintf("test n%d#%d ran %d times, expected %d (run %d)", k/1000, k%1000, ran[k], v, r), ""
				}
			}
			for k, v := range ran {
				if spec.Ran[k] != v {
					return out, fmt.Sprintf("test n%d#%d ran %d times, expected %d (run %d)", k/1000, k%1000, v, spec.Ran[k], r), ""
				}
			}
		}
	}
	return out, "", ""
}
