package props

import (
	"reflect"
	"sort"
	"strings"
	"testing"

	"pgregory.net/rapid"

	"verifharness/hh"
	"verifharness/model"
)

// C05: Catch replaces any failure of its own node, and only of its own node.

func hasCatch(n *model.Node) bool {
	f := false
	n.Walk(func(x *model.Node) {
		if x.Catch != nil {
			f = true
		}
	})
	return f
}

// catchHasIssuePath: some catching node carries a test (or Required) with an IssuePath option.
func catchHasIssuePath(n *model.Node) bool {
	f := false
	n.Walk(func(x *model.Node) {
		if x.Catch == nil {
			return
		}
		for _, t := range x.Tests {
			if t.Opts.Path != "" || t.Complex == "hand" || t.Complex == "handpath" {
				f = true // (a hand-built issue of a complex test carries the path its author wrote, not the node's)
			}
		}
		if x.ReqOpts != nil && x.ReqOpts.Path != "" {
			f = true
		}
	})
	return f
}

// issueParams: path, code and params of every issue outside the given paths, sorted.
func issueParams(r *model.Result, skip map[string]bool) string {
	var out []string
	for _, is := range r.All() {
		if is == nil || skip[is.Path] {
			continue
		}
		out = append(out, is.Path+"|"+is.Code+"|"+canonParams(is.Params))
	}
	sort.Strings(out)
	return strings.Join(out, " ")
}

// stripCatch returns a deep copy of the schema with every Catch removed.
func stripCatch(n *model.Node) *model.Node {
	c := *n
	c.Catch = nil
	if n.Elem != nil {
		c.Elem = stripCatch(n.Elem)
	}
	c.Fields = nil
	for _, f := range n.Fields {
		f2 := f
		f2.Node = stripCatch(f.Node)
		c.Fields = append(c.Fields, f2)
	}
	return &c
}

func propC05(reps int) func(model.Case) hh.Verdict {
	return func(c model.Case) hh.Verdict {
		c.Root.Number()
		if !hasCatch(c.Root) {
			return hh.Verdict{Skip: "no-catching-node"}
		}
		env := &model.Env{}
		schema, typ := model.Build(c.Root, env)
		spec, exp := runSpec(c, newDest(typ, c, false))
		if spec.Unknown != "" {
			return hh.Verdict{Skip: "spec-undetermined"}
		}
		// the catch-free twin
		twin := stripCatch(c.Root)
		twin.Number()
		env2 := &model.Env{}
		schema2, typ2 := model.Build(twin, env2)
		c2 := c
		c2.Root = twin
		spec2, _ := runSpec(c2, newDest(typ2, c2, false))
		catchPaths := map[string]bool{}
		for _, co := range spec.Catches {
			catchPaths[co.Path] = true
		}
		var in any
		if c.Exec.Mode == "parse" {
			in = c.Input.Go()
		}
		for r := 0; r < reps; r++ {
			dest := newDest(typ, c, false)
			res := model.Run(schema, env, c.Exec, in, dest)
			if res.Panic != nil {
				return hh.Fail("panic: %v", res.Panic)
			}
			got := res.Norm(false)
			// (a) direct: no issue at a catching node's path; destination = catch value iff its own pipeline fails
			for _, is := range got {
				if catchPaths[is.Path] && !catchHasIssuePath(c.Root) {
					return hh.Fail("issue %v reported at the path of a catching node (run %d)", is, r)
				}
			}
			for _, co := range spec.Catches {
				loc, ok := model.Locate(dest.Elem(), co.Loc)
				if !ok {
					return hh.Fail("catching node n%d at %q: destination unreachable", co.Node, co.Path)
				}
				g, w := model.CanonJSON(loc), model.CanonJSON(co.Dst)
				if g != w {
					return hh.Fail("catching node n%d at %q (caught=%v): destination %s, expected %s (run %d)", co.Node, co.Path, co.Caught, g, w, r)
				}
			}
			if !model.EqualIssSpec(got, spec.Issues) {
				return hh.Fail("issues differ from the specification (run %d): got %s want %s", r, fmtIss(got), fmtIss(spec.Issues))
			}
			if catchHasIssuePath(c.Root) {
				continue // the twin's own issues would not sit at the catching node's path
			}
			// (b) metamorphic: same schema without Catch, same input. Issues away from the
			// catching nodes' paths and destinations away from the catching nodes must agree.
			dest2 := newDest(typ2, c2, false)
			res2 := model.Run(schema2, env2, c2.Exec, in, dest2)
			if res2.Panic != nil {
				return hh.Fail("panic in catch-free twin: %v", res2.Panic)
			}
			var other []model.Iss
			for _, is := range res2.Norm(true) {
				if !catchPaths[is.Path] {
					other = append(other, is)
				}
			}
			// (messages included: what a catching node swallowed must not show up in a sibling's issue)
			if gotM := res.Norm(true); !model.EqualIss(gotM, other) {
				return hh.Fail("non-interference (run %d): with Catch %s, catch-free twin (minus the catching nodes' own issues) %s", r, fmtIss(gotM), fmtIss(other))
			}
			// ... and neither must the params the other nodes' tests were declared with go missing
			if g, w := issueParams(res, nil), issueParams(res2, catchPaths); g != w {
				return hh.Fail("non-interference (run %d): params of the issues away from the catching nodes differ: with Catch %s, twin %s", r, g, w)
			}
			d1, d2 := model.DeepCopy(dest.Elem()), model.DeepCopy(dest2.Elem())
			for _, co := range spec.Catches {
				for _, d := range []reflect.Value{d1, d2} {
					if loc, ok := model.Locate(d, co.Loc); ok {
						loc.Set(reflect.Zero(loc.Type()))
					}
				}
			}
			if g, w := model.CanonJSON(d1), model.CanonJSON(d2); g != w {
				return hh.Fail("non-interference (run %d): destinations away from the catching nodes differ: with Catch %s, twin %s", r, g, w)
			}
		}
		_ = exp
		_ = spec2
		v := hh.Verdict{Classes: append(shapeClasses(c.Root), "mode:"+c.Exec.Mode)}
		caught, total := 0, len(spec.Catches)
		lastCaughtElem := false
		for i, co := range spec.Catches {
			if co.Caught {
				caught++
				// a catching slice element followed by another element visit
				if i+1 < len(spec.Catches) && spec.Catches[i+1].Node == co.Node {
					lastCaughtElem = true
				}
			}
		}
		if caught > 0 {
			v.Classes = append(v.Classes, "caught")
		}
		if caught > 0 && len(spec.Issues) > 0 {
			v.Classes = append(v.Classes, "caught+other-issue")
		}
		if lastCaughtElem {
			v.Classes = append(v.Classes, "caught-elem-then-elem")
		}
		v.Nontrivial = (caught > 0 && len(spec.Issues) > 0) || (total >= 2 && caught >= 1 && caught < total) || lastCaughtElem
		return v
	}
}

func TestC05(t *testing.T) {
	h := hh.Start(t, "C05",
		"cases = schemas with >=1 catching primitive (struct field, slice element, behind pointer, nested) and inputs perturbed at and around them; non-trivial = a catching node catches while another node has a violation, or >=2 catching-node visits of which some but not all catch, or a catching slice element is followed by another element; distinct = FNV-1a of the case JSON",
		"(a) direct oracle from the specification: no issue at a catching node's path, destination equals the catch value iff the node's own pipeline fails; (b) metamorphic: the same schema with every Catch removed must report the same issues away from the catching nodes and leave the same values away from them",
		"no PostTransforms in the twin comparison (their gating is global by documentation; the sub-checks with-transforms-* use the direct oracle only: non-trivial = a catch happened, the execution succeeded and PostTransforms exist); tests on catching nodes carry no IssuePath; struct/slice level tests are data-independent so that the catch-free twin is comparable")
	defer h.Finish()
	reps := h.N(3, 8)
	for _, mode := range []string{"parse", "validate"} {
		cfg := model.DefaultCfg(mode)
		cfg.PPost = 0
		cfg.NoDataTests, cfg.ForceCatch, cfg.NoEmptyKeys = true, true, true // (paths identify nodes in this check)
		cfg.PCatch, cfg.PVary, cfg.PAbsent, cfg.PJunk, cfg.PTestSat, cfg.PLight, cfg.POpts = 0.5, 0.4, 0.15, 0.08, 0.75, 0.3, 0.3
		cfg.PCoercer = 0.1 // nodes with their own coercer (its refusal is a coercion failure like any other)
		if h.Thorough() {
			cfg.MaxDepth, cfg.MaxFields, cfg.MaxElems, cfg.ManyFields = 4, 6, 6, true
		}
		gen := func(rt *rapid.T) model.Case {
			c := model.GenCase(rt, cfg)
			if rapid.IntRange(0, 4).Draw(rt, "keepIssuePath") == 0 {
				return c // tests of catching nodes may redirect their issue with IssuePath: direct oracle only
			}
			c.Root.Walk(func(n *model.Node) {
				if n.Catch != nil {
					for i := range n.Tests {
						n.Tests[i].Opts.Path = ""
						if c := n.Tests[i].Complex; c == "hand" || c == "handpath" {
							n.Tests[i].Complex = "ctx"
						}
					}
					if n.ReqOpts != nil {
						n.ReqOpts.Path = ""
					}
				}
			})
			return c
		}
		hh.Sub(h, mode, h.N(30000, 35000), gen, propC05(reps))
		// "no effect beyond its node" with PostTransforms around: a catch is not an issue, so the PostTransforms of the
		// node itself, of later fields and of the enclosing structs and slices run exactly as the specification says
		// (direct oracle: issues and, on success, the whole destination)
		tcfg := cfg
		tcfg.PPost, tcfg.PTestSat, tcfg.PJunk, tcfg.PAbsent = 0.25, 0.9, 0.03, 0.1
		hh.Sub(h, "with-transforms-"+mode, h.N(8000, 30000), func(rt *rapid.T) model.Case { return model.GenCase(rt, tcfg) }, func(c model.Case) hh.Verdict {
			c.Root.Number()
			if !hasCatch(c.Root) {
				return hh.Verdict{Skip: "no-catching-node"}
			}
			out, bad, skip := conform(c, 2, false, true, false)
			if skip != "" {
				return hh.Verdict{Skip: skip}
			}
			if bad != "" {
				return hh.Fail("catching nodes among PostTransforms: %s", bad)
			}
			caught, posts := false, false
			for _, co := range out.spec.Catches {
				caught = caught || co.Caught
			}
			c.Root.Walk(func(n *model.Node) { posts = posts || len(n.Posts) > 0 })
			return hh.Verdict{Nontrivial: caught && posts && len(out.spec.Issues) == 0, Classes: []string{"mode:" + mode}}
		})
	}
}
