package props

import (
	"fmt"
	"reflect"
	"time"

	z "github.com/Oudwins/zog"

	"verifharness/hh"
	"verifharness/model"
)

// Custom[T] schemas for user types of every shape (documented: "Creating Custom Schemas", the uuid.UUID example is an
// array type): whatever Go value arrives where such a schema sits, Parse must not panic.

type c06Custom struct {
	T    string `json:"t"`
	Pos  string `json:"pos"` // root | field | elem | ptr | ptr-field
	Wild string `json:"wild"`
}

type c06CustomRunner func(pos string, data any) (issues int, called int, pan any)

func c06CustomOf[T any]() c06CustomRunner {
	return func(pos string, data any) (issues int, called int, pan any) {
		fn := func(p *T, ctx z.Ctx) bool {
			called++
			return p != nil
		}
		defer func() { pan = recover() }()
		switch pos {
		case "root":
			var d T
			issues = len(z.CustomFunc(fn).Parse(data, &d))
		case "ptr":
			var d *T
			issues = len(z.Ptr(z.CustomFunc(fn)).Parse(data, &d))
		case "elem":
			var d []T
			m := z.Slice(z.CustomFunc(fn)).Parse([]any{data, nil, data}, &d)
			issues = len(m)
		case "field":
			var d struct {
				Name T
				Age  int
			}
			m := z.Struct(z.Schema{"name": z.CustomFunc(fn), "age": z.Int()}).Parse(map[string]any{"name": data, "age": 3}, &d)
			issues = len(m)
		case "ptr-field":
			var d struct {
				Name *T
				Tags []T
			}
			m := z.Struct(z.Schema{"name": z.Ptr(z.CustomFunc(fn)), "tags": z.Slice(z.CustomFunc(fn))}).Parse(map[string]any{"name": data, "tags": data}, &d)
			issues = len(m)
		}
		return
	}
}

var c06CustomTypes = map[string]c06CustomRunner{
	"[16]byte":       c06CustomOf[[16]byte](),
	"[4]int":         c06CustomOf[[4]int](),
	"[0]int":         c06CustomOf[[0]int](),
	"[2]string":      c06CustomOf[[2]string](),
	"Arr2":           c06CustomOf[model.Arr2](),
	"NamedString":    c06CustomOf[model.NamedString](),
	"NamedInt":       c06CustomOf[model.NamedInt](),
	"NamedFloat":     c06CustomOf[model.NamedFloat](),
	"ExportedStruct": c06CustomOf[model.ExportedStruct](),
	"[]int":          c06CustomOf[[]int](),
	"[]byte":         c06CustomOf[[]byte](),
	"map[string]int": c06CustomOf[map[string]int](),
	"*int":           c06CustomOf[*int](),
	"Duration":       c06CustomOf[time.Duration](),
	"Time":           c06CustomOf[time.Time](),
	"any":            c06CustomOf[any](),
	"error":          c06CustomOf[error](),
	"uint8":          c06CustomOf[uint8](),
	"complex128":     c06CustomOf[complex128](),
	"func()":         c06CustomOf[func()](),
}

func propC06Custom(c c06Custom) hh.Verdict {
	run, ok := c06CustomTypes[c.T]
	if !ok {
		return hh.Verdict{Skip: "unknown-type"}
	}
	mk, ok := model.WildRegistry[c.Wild]
	if !ok {
		return hh.Verdict{Skip: "unknown-wild-value"}
	}
	data := mk()
	issues, called, pan := run(c.Pos, data)
	if pan != nil {
		return hh.Fail("Custom[%s] at %s given %s (%s): Parse panicked: %v", c.T, c.Pos, c.Wild, typeName(data), pan)
	}
	var later any
	func() {
		defer func() { later = recover() }()
		processPrelude()
	}()
	if later != nil {
		return hh.Fail("after Custom[%s] at %s given %s returned normally: %v", c.T, c.Pos, c.Wild, later)
	}
	v := hh.Verdict{Nontrivial: true, Classes: []string{"custom-T:" + c.T, "pos:" + c.Pos}}
	switch {
	case called > 0:
		v.Classes = append(v.Classes, "function-called")
	case issues > 0:
		v.Classes = append(v.Classes, "rejected")
	default:
		v.Classes = append(v.Classes, "treated-as-absent")
	}
	return v
}

func typeName(v any) string {
	if v == nil {
		return "nil"
	}
	return reflect.TypeOf(v).String()
}

func c06CustomCells(yield func(c06Custom)) {
	for _, t := range model.SortedKeys(c06CustomTypes) {
		for _, pos := range []string{"root", "ptr", "elem", "field", "ptr-field"} {
			for _, w := range wildNames {
				yield(c06Custom{T: t, Pos: pos, Wild: w})
			}
		}
	}
	_ = fmt.Sprint
}
