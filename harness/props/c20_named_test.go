package props

import (
	"fmt"
	"reflect"

	z "github.com/Oudwins/zog"
	"github.com/Oudwins/zog/conf"

	"verifharness/hh"
	"verifharness/model"
)

// Named primitive types (documented: "Creating Custom Schemas for Primitive
// Types"): StringSchema[T ~string], NumberSchema[T], BoolSchema[T ~bool] used
// with user-defined types must decide the same predicates.

type nsT string
type niT int
type nfT float64
type nbT bool

type c20Named struct {
	Type    string         `json:"type"` // nstring | nint | nfloat | nbool
	Test    model.TestSpec `json:"test"`
	Subject model.Val      `json:"subject"`
	Mode    string         `json:"mode"`
	Req     bool           `json:"req,omitempty"`
}

func namedString() *z.StringSchema[nsT] {
	s := &z.StringSchema[nsT]{}
	z.WithCoercer(func(x any) (any, error) {
		v, err := conf.DefaultCoercers.String(x)
		if err != nil {
			return nil, err
		}
		return nsT(v.(string)), nil
	})(s)
	return s
}

func propC20Named(c c20Named) hh.Verdict {
	ts := c.Test
	var issues z.ZogIssueList
	var pan any
	var subjectV reflect.Value
	kind := model.KString
	run := func(f func()) {
		defer func() { pan = recover() }()
		f()
	}
	switch c.Type {
	case "nstring":
		s := namedString()
		var t z.NotStringSchema[nsT] = s
		if ts.Not {
			t = s.Not()
		}
		switch ts.Name {
		case "min":
			s.Min(ts.N)
		case "max":
			s.Max(ts.N)
		case "len":
			t.Len(ts.N)
		case "prefix":
			t.HasPrefix(nsT(ts.Str))
		case "suffix":
			t.HasSuffix(nsT(ts.Str))
		case "contains":
			t.Contains(nsT(ts.Str))
		case "upper":
			t.ContainsUpper()
		case "digit":
			t.ContainsDigit()
		case "special":
			t.ContainsSpecial()
		case "email":
			t.Email()
		case "uuid":
			t.UUID()
		case "oneof":
			l := make([]nsT, len(ts.Args))
			for i, a := range ts.Args {
				l[i] = nsT(a.S)
			}
			t.OneOf(l)
		}
		if c.Req {
			s.Required()
		}
		v := nsT(c.Subject.S)
		subjectV = reflect.ValueOf(c.Subject.S)
		if c.Mode == "validate" {
			run(func() { issues = s.Validate(&v) })
		} else {
			var d nsT
			run(func() { issues = s.Parse(c.Subject.S, &d) })
		}
	case "nint", "nfloat":
		kind = model.KInt
		if c.Type == "nfloat" {
			kind = model.KFloat64
		}
		f := c.Subject.Go()
		arg := ts.Arg.Go()
		if c.Type == "nint" {
			s := &z.NumberSchema[niT]{}
			z.WithCoercer(func(x any) (any, error) {
				v, err := conf.DefaultCoercers.Int(x)
				if err != nil {
					return nil, err
				}
				return niT(v.(int)), nil
			})(s)
			a := niT(arg.(int))
			switch ts.Name {
			case "eq":
				s.EQ(a)
			case "lt":
				s.LT(a)
			case "lte":
				s.LTE(a)
			case "gt":
				s.GT(a)
			case "gte":
				s.GTE(a)
			}
			if c.Req {
				s.Required()
			}
			v := niT(f.(int))
			subjectV = reflect.ValueOf(f)
			if c.Mode == "validate" {
				run(func() { issues = s.Validate(&v) })
			} else {
				var d niT
				run(func() { issues = s.Parse(f, &d) })
			}
		} else {
			s := &z.NumberSchema[nfT]{}
			z.WithCoercer(func(x any) (any, error) {
				v, err := conf.DefaultCoercers.Float64(x)
				if err != nil {
					return nil, err
				}
				return nfT(v.(float64)), nil
			})(s)
			a := nfT(arg.(float64))
			switch ts.Name {
			case "eq":
				s.EQ(a)
			case "lt":
				s.LT(a)
			case "lte":
				s.LTE(a)
			case "gt":
				s.GT(a)
			case "gte":
				s.GTE(a)
			}
			if c.Req {
				s.Required()
			}
			v := nfT(f.(float64))
			subjectV = reflect.ValueOf(f)
			if c.Mode == "validate" {
				run(func() { issues = s.Validate(&v) })
			} else {
				var d nfT
				run(func() { issues = s.Parse(f, &d) })
			}
		}
	case "nbool":
		kind = model.KBool
		s := &z.BoolSchema[nbT]{}
		z.WithCoercer(func(x any) (any, error) {
			v, err := conf.DefaultCoercers.Bool(x)
			if err != nil {
				return nil, err
			}
			return nbT(v.(bool)), nil
		})(s)
		switch ts.Name {
		case "true":
			s.True()
		case "false":
			s.False()
		case "eq":
			s.EQ(nbT(ts.Arg.S == "true"))
		}
		if c.Req {
			s.Required()
		}
		b := c.Subject.S == "true"
		v := nbT(b)
		subjectV = reflect.ValueOf(b)
		if c.Mode == "validate" {
			run(func() { issues = s.Validate(&v) })
		} else {
			var d nbT
			run(func() { issues = s.Parse(b, &d) })
		}
	}
	if pan != nil {
		return hh.Fail("%s %s on %s [%s]: panic %v", c.Type, ts.Name, model.JSON(c.Subject), c.Mode, pan)
	}
	// absent rule: Parse: nil / white-space-only string; Validate: the Go zero value
	absent := false
	if c.Mode == "parse" {
		absent = c.Subject.T == "string" && model.IsParseAbsent(c.Subject.S)
	} else {
		absent = subjectV.IsZero()
	}
	var want []string
	switch {
	case absent && c.Req:
		want = []string{"required"}
	case absent:
	default:
		ok := model.EvalTest(kind, ts, subjectV)
		if ts.Not {
			ok = !ok
		}
		if !ok {
			want = []string{model.ExpectedCode(kind, ts)}
		}
	}
	var got []string
	for _, is := range issues {
		got = append(got, is.Code)
	}
	if fmt.Sprint(got) != fmt.Sprint(want) {
		return hh.Fail("%s %s(not=%v, req=%v) on %s [%s]: issues %v, expected %v", c.Type, ts.Name, ts.Not, c.Req, model.JSON(c.Subject), c.Mode, got, want)
	}
	return hh.Verdict{Nontrivial: true, Classes: []string{"named:" + c.Type, "mode:" + c.Mode}}
}

func c20NamedCells(yield func(c20Named)) {
	strs := []string{"", " ", "\t", "a", "ab", "abc", "Abc1!", "a@b.c", "123e4567-e89b-12d3-a456-426614174000", "é", "日本", "zz"}
	var tests []model.TestSpec
	for n := 0; n <= 4; n++ {
		tests = append(tests, model.TestSpec{Name: "min", N: n}, model.TestSpec{Name: "max", N: n}, model.TestSpec{Name: "len", N: n}, model.TestSpec{Name: "len", N: n, Not: true})
	}
	for _, name := range []string{"upper", "digit", "special", "email", "uuid"} {
		tests = append(tests, model.TestSpec{Name: name}, model.TestSpec{Name: name, Not: true})
	}
	for _, a := range []string{"a", "ab", "zz", ""} {
		for _, name := range []string{"prefix", "suffix", "contains"} {
			tests = append(tests, model.TestSpec{Name: name, Str: a}, model.TestSpec{Name: name, Str: a, Not: true})
		}
	}
	tests = append(tests, model.TestSpec{Name: "oneof", Args: []model.Val{model.Str("a"), model.Str("zz")}}, model.TestSpec{Name: "oneof", Args: []model.Val{model.Str("a"), model.Str("zz")}, Not: true})
	for _, mode := range modes {
		for _, req := range []bool{false, true} {
			for _, ts := range tests {
				for _, s := range strs {
					yield(c20Named{Type: "nstring", Test: ts, Subject: model.Str(s), Mode: mode, Req: req})
				}
			}
			for _, name := range []string{"eq", "lt", "lte", "gt", "gte"} {
				for _, a := range []int{-1, 0, 1, 5} {
					for _, b := range []int{-1, 0, 1, 4, 5, 6} {
						arg := model.Int(a)
						yield(c20Named{Type: "nint", Test: model.TestSpec{Name: name, Arg: &arg}, Subject: model.Int(b), Mode: mode, Req: req})
						farg := model.F64(float64(a) + 0.5)
						yield(c20Named{Type: "nfloat", Test: model.TestSpec{Name: name, Arg: &farg}, Subject: model.F64(float64(b) + 0.5), Mode: mode, Req: req})
						yield(c20Named{Type: "nfloat", Test: model.TestSpec{Name: name, Arg: &farg}, Subject: model.F64(float64(b)), Mode: mode, Req: req})
					}
				}
			}
			for _, b := range []bool{false, true} {
				for _, name := range []string{"true", "false"} {
					yield(c20Named{Type: "nbool", Test: model.TestSpec{Name: name}, Subject: model.Bool(b), Mode: mode, Req: req})
				}
				for _, e := range []bool{false, true} {
					arg := model.Bool(e)
					yield(c20Named{Type: "nbool", Test: model.TestSpec{Name: "eq", Arg: &arg}, Subject: model.Bool(b), Mode: mode, Req: req})
				}
			}
		}
	}
}
