package props

import (
	"fmt"
	"net/http"
	"reflect"
	"sort"
	"strings"
	"testing"
	"time"

	z "github.com/Oudwins/zog"
	"github.com/Oudwins/zog/conf"
	"github.com/Oudwins/zog/i18n"
	"github.com/Oudwins/zog/i18n/en"
	"github.com/Oudwins/zog/i18n/es"
	"github.com/Oudwins/zog/parsers/zjson"
	"github.com/Oudwins/zog/zconst"
	"github.com/Oudwins/zog/zhttp"
	"pgregory.net/rapid"

	"verifharness/hh"
	"verifharness/model"
)

// C11: every issue is fully described and its message is chosen most-specific-first.

// ---- Part A: exhaustive catalogue ----

type c11Cell struct {
	Label   string         `json:"label"`
	Kind    string         `json:"kind"`           // node kind; "ptr:<kind>" for not_nil; "frontend" for decode failures
	Elem    string         `json:"elem,omitempty"` // slice element kind
	What    string         `json:"what"`           // test | required | not_nil | coerce | invalid_json | invalid_form
	Test    model.TestSpec `json:"test,omitempty"`
	Subject model.Val      `json:"subject"` // failing subject (typed) or un-coercible input
	Mode    string         `json:"mode"`
	Lang    string         `json:"lang"` // default | i18n-en | i18n-es | i18n-none | i18n-unknown | i18n-es-MX (a language registered under a regional tag)
	// Describe: the test (or Required) carries a MessageFunc that renders the issue it is handed; what it saw must be
	// what the issue finally says
	Describe bool `json:"describe,omitempty"`
}

func withLanguage(lang string, run func(opts []z.ExecOption)) {
	saved := conf.IssueFormatter
	defer func() { conf.IssueFormatter = saved }()
	var opts []z.ExecOption
	if lang != "default" {
		// languages are registered under the keys an application chooses: plain codes and a regional tag
		langs := map[string]i18n.LangMap{"en": en.Map, "es": es.Map, "es-MX": es.Map}
		if strings.HasPrefix(lang, "i18n-langkey") {
			i18n.SetLanguagesErrsMap(langs, "en", i18n.WithLangKey("locale")) // the context key that names the language is configurable
		} else {
			i18n.SetLanguagesErrsMap(langs, "en")
		}
		switch lang {
		case "i18n-langkey-es":
			opts = append(opts, z.WithCtxValue("locale", "es"))
		case "i18n-langkey-other-key": // the default key means nothing once another key is configured
			opts = append(opts, z.WithCtxValue(i18n.LangKey, "es"))
		case "i18n-es-MX":
			opts = append(opts, z.WithCtxValue(i18n.LangKey, "es-MX"))
		case "i18n-en":
			opts = append(opts, z.WithCtxValue(i18n.LangKey, "en"))
		case "i18n-es":
			opts = append(opts, z.WithCtxValue(i18n.LangKey, "es"))
		case "i18n-unknown":
			opts = append(opts, z.WithCtxValue(i18n.LangKey, "fr"))
		}
	}
	run(opts)
}

var c11Langs = []string{"default", "i18n-en", "i18n-es", "i18n-none", "i18n-unknown", "i18n-es-MX", "i18n-langkey-es", "i18n-langkey-other-key"}

func c11Cells(yield func(c11Cell)) {
	t0 := time.Date(2024, 5, 6, 7, 8, 9, 0, time.UTC)
	T := func(t time.Time) *model.Val { v := model.Time(t); return &v }
	S := func(s string) *model.Val { v := model.Str(s); return &v }
	type tc struct {
		kind, elem string
		ts         model.TestSpec
		subj       model.Val
	}
	var tests []tc
	str := func(ts model.TestSpec, subj string) {
		tests = append(tests, tc{model.KString, "", ts, model.Str(subj)})
	}
	str(model.TestSpec{Name: "min", N: 5}, "ab")
	str(model.TestSpec{Name: "max", N: 2}, "abc")
	str(model.TestSpec{Name: "len", N: 3}, "ab")
	str(model.TestSpec{Name: "email"}, "x")
	str(model.TestSpec{Name: "url"}, "x")
	str(model.TestSpec{Name: "uuid"}, "x")
	str(model.TestSpec{Name: "match", Str: `^[a-z]+$`}, "A1")
	str(model.TestSpec{Name: "prefix", Str: "zq"}, "abc")
	str(model.TestSpec{Name: "suffix", Str: "zq"}, "abc")
	str(model.TestSpec{Name: "contains", Str: "zq"}, "abc")
	str(model.TestSpec{Name: "upper"}, "abc")
	str(model.TestSpec{Name: "digit"}, "abc")
	str(model.TestSpec{Name: "special"}, "abc")
	str(model.TestSpec{Name: "oneof", Args: []model.Val{model.Str("a"), model.Str("b")}}, "c")
	str(model.TestSpec{Name: "oneof", Args: []model.Val{model.Str("only")}}, "c") // a list of one option is still a OneOf
	str(model.TestSpec{Name: "len", N: 3, Not: true}, "abc")
	str(model.TestSpec{Name: "email", Not: true}, "a@b.c")
	str(model.TestSpec{Name: "url", Not: true}, "http://a.b")
	str(model.TestSpec{Name: "uuid", Not: true}, "123e4567-e89b-12d3-a456-426614174000")
	str(model.TestSpec{Name: "match", Str: `^[a-z]+$`, Not: true}, "abc")
	str(model.TestSpec{Name: "prefix", Str: "ab", Not: true}, "abc")
	str(model.TestSpec{Name: "suffix", Str: "bc", Not: true}, "abc")
	str(model.TestSpec{Name: "contains", Str: "b", Not: true}, "abc")
	str(model.TestSpec{Name: "upper", Not: true}, "A")
	str(model.TestSpec{Name: "digit", Not: true}, "1")
	str(model.TestSpec{Name: "special", Not: true}, "!")
	str(model.TestSpec{Name: "oneof", Args: []model.Val{model.Str("a"), model.Str("b")}, Not: true}, "a")
	for _, k := range []string{model.KInt, model.KInt32, model.KInt64, model.KFloat32, model.KFloat64} {
		num := func(f float64) *model.Val {
			v := model.Val{T: k, S: fmt.Sprint(f)}
			return &v
		}
		tests = append(tests,
			tc{k, "", model.TestSpec{Name: "eq", Arg: num(5)}, *num(4)},
			tc{k, "", model.TestSpec{Name: "lt", Arg: num(5)}, *num(5)},
			tc{k, "", model.TestSpec{Name: "lte", Arg: num(5)}, *num(6)},
			tc{k, "", model.TestSpec{Name: "gt", Arg: num(5)}, *num(5)},
			tc{k, "", model.TestSpec{Name: "gte", Arg: num(5)}, *num(4)},
			tc{k, "", model.TestSpec{Name: "oneof", Args: []model.Val{*num(1), *num(2)}}, *num(3)},
			tc{k, "", model.TestSpec{Name: "oneof", Args: []model.Val{*num(5)}}, *num(3)})
	}
	bt, bf := model.Bool(true), model.Bool(false)
	tests = append(tests,
		tc{model.KBool, "", model.TestSpec{Name: "true"}, bf},
		tc{model.KBool, "", model.TestSpec{Name: "false"}, bt},
		tc{model.KBool, "", model.TestSpec{Name: "eq", Arg: &bt}, bf},
		tc{model.KTime, "", model.TestSpec{Name: "after", Arg: T(t0)}, model.Time(t0)},
		tc{model.KTime, "", model.TestSpec{Name: "before", Arg: T(t0)}, model.Time(t0)},
		tc{model.KTime, "", model.TestSpec{Name: "eq", Arg: T(t0)}, model.Time(t0.Add(time.Second))},
		tc{model.KSlice, model.KString, model.TestSpec{Name: "min", N: 2}, model.List(model.Str("a"))},
		tc{model.KSlice, model.KString, model.TestSpec{Name: "max", N: 1}, model.List(model.Str("a"), model.Str("b"))},
		tc{model.KSlice, model.KString, model.TestSpec{Name: "len", N: 2}, model.List(model.Str("a"))},
		tc{model.KSlice, model.KString, model.TestSpec{Name: "contains", Arg: S("zq")}, model.List(model.Str("a"))},
		tc{model.KSlice, model.KInt, model.TestSpec{Name: "contains", Arg: func() *model.Val { v := model.Int(9); return &v }()}, model.List(model.Int(1))},
	)
	prims := []string{model.KString, model.KInt, model.KInt32, model.KInt64, model.KFloat32, model.KFloat64, model.KBool, model.KTime}
	for _, lang := range c11Langs {
		for _, mode := range modes {
			for _, t := range tests {
				yield(c11Cell{Label: fmt.Sprintf("%s.%s(not=%v)", t.kind, t.ts.Name, t.ts.Not), Kind: t.kind, Elem: t.elem, What: "test", Test: t.ts, Subject: t.subj, Mode: mode, Lang: lang})
			}
			for _, k := range append(append([]string{}, prims...), model.KSlice) {
				yield(c11Cell{Label: k + ".required", Kind: k, Elem: model.KString, What: "required", Subject: model.Nil(), Mode: mode, Lang: lang})
			}
			for _, k := range append(append([]string{}, prims...), model.KSlice, model.KStruct) {
				yield(c11Cell{Label: "ptr:" + k + ".not_nil", Kind: k, Elem: model.KString, What: "not_nil", Subject: model.Nil(), Mode: mode, Lang: lang})
				yield(c11Cell{Label: "ptrptr:" + k + ".not_nil", Kind: k, Elem: model.KString, What: "not_nil2", Subject: model.Nil(), Mode: mode, Lang: lang})
			}
		}
		junk := map[string]model.Val{model.KInt: model.Str("abc"), model.KInt32: model.Str("abc"), model.KInt64: model.Str("abc"), model.KFloat32: model.Str("abc"), model.KFloat64: model.Str("abc"),
			model.KBool: model.Str("maybe"), model.KTime: model.Str("yesterday"), model.KStruct: model.Str("junk"), model.KCustom: model.F64(1.5)}
		for _, k := range model.SortedKeys(junk) {
			yield(c11Cell{Label: k + ".coerce", Kind: k, What: "coerce", Subject: junk[k], Mode: "parse", Lang: lang})
		}
		// Preprocess in front of a pointer / primitive schema: type mismatch and function error
		for _, inner := range []string{"string", "ptr"} {
			yield(c11Cell{Label: "preprocess(" + inner + ").type-mismatch", Kind: "pre:" + inner, What: "pre-coerce", Subject: model.Int(7), Mode: "parse", Lang: lang})
			yield(c11Cell{Label: "preprocess(" + inner + ").error", Kind: "pre:" + inner, What: "pre-error", Subject: model.Str("x"), Mode: "parse", Lang: lang})
		}
		for _, body := range []string{`{"a":`, `[1]`, `null`, `"s"`, ``} {
			yield(c11Cell{Label: "zjson.invalid_json", Kind: "frontend", What: "invalid_json", Subject: model.Str(body), Mode: "parse", Lang: lang})
			yield(c11Cell{Label: "zhttp.invalid_json", Kind: "frontend-http", What: "invalid_json", Subject: model.Str(body), Mode: "parse", Lang: lang})
		}
		for _, body := range []string{`a=%zz`, `%`, `a=1;b=2`} {
			yield(c11Cell{Label: "zhttp.invalid_form", Kind: "frontend-http", What: "invalid_form", Subject: model.Str(body), Mode: "parse", Lang: lang})
		}
	}
}

func propC11Cell(c c11Cell) hh.Verdict {
	var res *model.Result
	var node *model.Node
	wantCode := ""
	withLanguage(c.Lang, func(opts []z.ExecOption) {
		env := &model.Env{}
		switch c.Kind {
		case "frontend", "frontend-http":
			root := &model.Node{Kind: model.KStruct, Fields: []model.Field{{Key: "a", Node: &model.Node{Kind: model.KString}}}}
			root.Number()
			node = root
			schema, typ := model.Build(root, env)
			dest := reflect.New(typ)
			var data any
			if c.Kind == "frontend" {
				data = zjson.Decode(strings.NewReader(c.Subject.S))
			} else {
				req, _ := http.NewRequest("POST", "http://example.test/", strings.NewReader(c.Subject.S))
				ct := "application/json"
				if c.What == "invalid_form" {
					ct = "application/x-www-form-urlencoded"
				}
				req.Header.Set("Content-Type", ct)
				data = zhttp.Request(req)
			}
			res = &model.Result{IsMap: true, Dest: dest}
			func() {
				defer func() {
					if p := recover(); p != nil {
						res.Panic = p
					}
				}()
				res.Map = schema.(*z.StructSchema).Parse(data, dest.Interface(), opts...)
			}()
			wantCode = c.What
			return
		}
		if strings.HasPrefix(c.Kind, "pre:") {
			// struct{ f: Preprocess(fn, String | Ptr(String)) } with an input of the wrong type / a failing function
			leaf := &model.Node{Kind: model.KString}
			node = leaf
			elem := leaf
			if c.Kind == "pre:ptr" {
				elem = &model.Node{Kind: model.KPtr, Elem: leaf}
			}
			fn := "trim"
			if c.What == "pre-error" {
				fn = "error"
			}
			root := &model.Node{Kind: model.KStruct, Fields: []model.Field{{Key: "f", Node: &model.Node{Kind: model.KPre, PreFn: fn, Elem: elem}}}}
			root.Number()
			schema, typ := model.Build(root, env)
			in := model.Map(model.KV{K: "f", V: c.Subject})
			res = model.RunWith(schema, env, model.Exec{Mode: "parse"}, in.Go(), reflect.New(typ), opts)
			wantCode = "*" // a Preprocess failure "becomes an issue": the code is not part of the statement
			return
		}
		n := &model.Node{Kind: c.Kind}
		switch c.Kind {
		case model.KSlice:
			n.Elem = &model.Node{Kind: c.Elem}
		case model.KStruct:
			n.Fields = []model.Field{{Key: "a", Node: &model.Node{Kind: model.KString}}}
		case model.KCustom:
			n.CustomT, n.CustomFn = "string", "pass"
			n.Tests = []model.TestSpec{{Name: "func", Str: "pass"}}
		}
		node = n
		in := c.Subject
		switch c.What {
		case "test":
			if c.Describe {
				c.Test.Opts.MsgFunc = model.DescribeMsgFunc
			}
			cc := c20Case{Kind: c.Kind, Elem: c.Elem, Test: c.Test, Subject: c.Subject, Mode: c.Mode}.toCase()
			n = cc.Root
			node = n
			in = cc.Input
			wantCode = model.ExpectedCode(c.Kind, c.Test)
		case "required":
			n.Req = true
			if c.Describe {
				n.ReqOpts = &model.Opts{MsgFunc: model.DescribeMsgFunc}
			}
			wantCode = "required"
		case "not_nil":
			n = &model.Node{Kind: model.KPtr, Req: true, Elem: n}
			wantCode = "not_nil"
		case "not_nil2": // pointer to pointer, the outer one NotNil
			n = &model.Node{Kind: model.KPtr, Req: true, Elem: &model.Node{Kind: model.KPtr, Elem: n}}
			wantCode = "not_nil"
		case "coerce":
			wantCode = "coerce"
		}
		n.Number()
		schema, typ := model.Build(n, env)
		cs := model.Case{Root: n, Input: in, Exec: model.Exec{Mode: c.Mode}}
		dest := newDest(typ, cs, false)
		var data any
		if c.Mode == "parse" {
			data = in.Go()
		}
		res = model.RunWith(schema, env, cs.Exec, data, dest, opts)
	})
	if res.Panic != nil {
		return hh.Fail("%s [%s/%s]: panic: %v", c.Label, c.Mode, c.Lang, res.Panic)
	}
	all := res.All()
	if len(all) != 1 {
		return hh.Fail("%s [%s/%s]: expected exactly one issue, got %s", c.Label, c.Mode, c.Lang, fmtIss(res.Norm(true)))
	}
	is := all[0]
	fail := func(f string, a ...any) hh.Verdict {
		return hh.Fail("%s [%s/%s]: %s; issue: %s", c.Label, c.Mode, c.Lang, fmt.Sprintf(f, a...), is.String())
	}
	okCode := is.Code == wantCode || wantCode == "*"
	if c.What == "test" && c.Kind == model.KBool && (c.Test.Name == "true" || c.Test.Name == "false") {
		okCode = okCode || is.Code == c.Test.Name // zconst documents true/false; the implementation reports eq: either is accepted
	}
	if !okCode {
		return fail("code %q, expected %q", is.Code, wantCode)
	}
	wantType := node.ZType() // for not_nil: the pointee's type (pointers pass through to the schema type)
	if is.Dtype == "ptr" && (c.What == "not_nil" || c.What == "not_nil2" || c.Kind == "pre:ptr") {
		wantType = "ptr" // zconst also defines a pointer type: acceptable as long as the issue is fully described (checked below)
	}
	if is.Dtype != wantType {
		return fail("type %q, expected %q", is.Dtype, wantType)
	}
	if strings.TrimSpace(is.Message) == "" {
		return fail("empty message")
	}
	if c.Describe {
		// "fully described" holds at the moment the test's own MessageFunc is asked for the message
		if want := "seen:" + model.DescribeIssue(is); is.Message != want {
			return fail("the test's MessageFunc was handed an issue saying %q, the issue finally says %q", strings.TrimPrefix(is.Message, "seen:"), strings.TrimPrefix(want, "seen:"))
		}
		return hh.Verdict{Nontrivial: true, Classes: []string{"what:" + c.What, "mode:" + c.Mode, "described-by-messagefunc"}}
	}
	if strings.Contains(is.Message, "{{") || strings.Contains(is.Message, "}}") {
		return fail("unresolved placeholder in message %q", is.Message)
	}
	// the message is what THIS cell's language produces for this issue (not a leftover of another execution)
	langMap := en.Map
	if c.Lang == "i18n-es" || c.Lang == "i18n-es-MX" || c.Lang == "i18n-langkey-es" {
		langMap = es.Map
	}
	cp := *is
	cp.Message = ""
	conf.NewDefaultFormatter(langMap)(&cp, nil)
	if cp.Message != is.Message {
		return fail("message %q is not the rendering of this execution's language (%q)", is.Message, cp.Message)
	}
	switch c.What {
	case "test":
		want := canonParams(model.DefaultParams(c.Kind, c.Elem, c.Test))
		if got := canonParams(is.Params); got != want {
			return fail("params %s, expected %s", got, want)
		}
		// a reference to the offending value
		rv := reflect.ValueOf(is.Value)
		for rv.IsValid() && rv.Kind() == reflect.Pointer && !rv.IsNil() {
			rv = rv.Elem()
		}
		if !rv.IsValid() {
			return fail("no value reference")
		}
		wantV := reflect.New(rv.Type()).Elem()
		func() {
			defer func() { recover() }()
			model.SetFromVal(wantV, c.Subject)
		}()
		if model.CanonJSON(rv) != model.CanonJSON(wantV) {
			return fail("value reference holds %s, the offending value is %s", model.CanonJSON(rv), model.CanonJSON(wantV))
		}
	case "pre-coerce", "pre-error":
		if is.Err == nil {
			return fail("preprocess issue without the underlying error")
		}
	case "coerce":
		if fmt.Sprint(is.Value) != fmt.Sprint(c.Subject.Go()) {
			return fail("value %v, expected the input %v", is.Value, c.Subject.Go())
		}
		if is.Err == nil {
			return fail("coerce issue without the underlying error")
		}
	case "invalid_json", "invalid_form":
		if is.Err == nil {
			return fail("decode issue without the underlying error")
		}
		if is.Path != "" {
			return fail("decode issue not at the top level: path %q", is.Path)
		}
	}
	return hh.Verdict{Nontrivial: true, Classes: []string{"what:" + c.What, "lang:" + c.Lang, "mode:" + c.Mode}}
}

// ---- Part B: precedence of formatter levels ----

type c11Prec struct {
	Case model.Case `json:"case"` // Exec.Formatter = execution-level marker ("" = none); Exec.CtxVals may carry the language
	I18n bool       `json:"i18n"` // global formatter: plain marker "G" or i18n marker maps
}

func markerMap(lang string) zconst.LangMap {
	m := zconst.LangMap{}
	for _, t := range []string{"string", "number", "bool", "time", "slice", "struct", "custom"} {
		m[t] = map[string]string{zconst.IssueCodeFallback: "L:" + lang}
	}
	return m
}

func propC11Prec(p c11Prec) hh.Verdict {
	saved := conf.IssueFormatter
	defer func() { conf.IssueFormatter = saved }()
	global := "G"
	if p.I18n {
		i18n.SetLanguagesErrsMap(map[string]i18n.LangMap{"en": markerMap("en"), "es": markerMap("es")}, "en")
		global = "L:en"
		for _, kv := range p.Case.Exec.CtxVals {
			if kv.K == i18n.LangKey && kv.V.S == "es" {
				global = "L:es"
			}
		}
	} else {
		conf.IssueFormatter = func(e *z.ZogIssue, c z.Ctx) { e.SetMessage("G") }
	}
	c := p.Case
	c.Root.Number()
	env := &model.Env{}
	schema, typ := model.Build(c.Root, env)
	spec, _ := runSpec(c, newDest(typ, c, false))
	if spec.Unknown != "" {
		return hh.Verdict{Skip: "spec-undetermined"}
	}
	var in any
	if c.Exec.Mode == "parse" {
		in = c.Input.Go()
	}
	processPrelude() // recycled issues carry the texts of other tests and formatters
	res := model.Run(schema, env, c.Exec, in, newDest(typ, c, false))
	if res.Panic != nil {
		return hh.Fail("panic: %v", res.Panic)
	}
	var want []string
	levels2 := false
	for _, d := range spec.Detailed {
		msg := global
		nlevels := 1
		if c.Exec.Formatter != "" {
			msg = c.Exec.Formatter
			nlevels++
		}
		var o *model.Opts
		switch {
		case d.Idx >= 0 && d.Idx < len(d.Node.Tests):
			o = &d.Node.Tests[d.Idx].Opts
		case d.Idx == 999 && len(d.Node.Tests) == 1:
			o = &d.Node.Tests[0].Opts
		case d.Idx == -1:
			o = d.Node.ReqOpts
		}
		if o != nil && (o.Msg != "" || (o.MsgFunc != "" && o.MsgFunc != model.NoopMsgFunc)) {
			msg = o.Msg + o.MsgFunc
			nlevels++
		}
		if nlevels >= 2 {
			levels2 = true
		}
		want = append(want, fmt.Sprintf("%s|%s|%s", d.Path, d.Code, msg))
	}
	var got []string
	for _, is := range res.All() {
		got = append(got, fmt.Sprintf("%s|%s|%s", is.Path, is.Code, is.Message))
	}
	sort.Strings(want)
	sort.Strings(got)
	if strings.Join(got, "\n") != strings.Join(want, "\n") {
		return hh.Fail("message precedence (test option > execution formatter %q > global %q):\n got  %v\n want %v", c.Exec.Formatter, global, got, want)
	}
	v := hh.Verdict{Nontrivial: levels2 && len(want) > 0, Classes: []string{"mode:" + c.Exec.Mode}}
	if p.I18n {
		v.Classes = append(v.Classes, "global:i18n:"+global)
	} else {
		v.Classes = append(v.Classes, "global:plain")
	}
	if c.Exec.Formatter != "" {
		v.Classes = append(v.Classes, "exec-formatter")
	}
	return v
}

// ---- Part C: decode-failure issues under consecutive executions with different formatters ----

type c11Seq struct {
	FE   string `json:"fe"`   // zjson | zhttp-json | zhttp-form
	Body string `json:"body"` // undecodable body
	Ptr  bool   `json:"ptr"`  // schema is Ptr(Struct) instead of Struct
}

func propC11Seq(c c11Seq) hh.Verdict {
	saved := conf.IssueFormatter
	defer func() { conf.IssueFormatter = saved }()
	type D struct{ A string }
	st := z.Struct(z.Schema{"a": z.String()})
	run := func(opts ...z.ExecOption) (z.ZogIssueMap, any) {
		var data any
		switch c.FE {
		case "zjson":
			data = zjson.Decode(strings.NewReader(c.Body))
		default:
			req, _ := http.NewRequest("POST", "http://example.test/", strings.NewReader(c.Body))
			ct := "application/json"
			if c.FE == "zhttp-form" {
				ct = "application/x-www-form-urlencoded"
			}
			req.Header.Set("Content-Type", ct)
			data = zhttp.Request(req)
		}
		var pan any
		var errs z.ZogIssueMap
		func() {
			defer func() { pan = recover() }()
			if c.Ptr {
				var d *D
				errs = z.Ptr(st).Parse(data, &d, opts...)
			} else {
				var d D
				errs = st.Parse(data, &d, opts...)
			}
		}()
		return errs, pan
	}
	marker := func(m string) z.ExecOption {
		return z.WithIssueFormatter(func(e *z.ZogIssue, ctx z.Ctx) { e.SetMessage(m) })
	}
	steps := []struct {
		name  string
		setup func()
		opts  []z.ExecOption
		want  string
	}{
		{"execution formatter X1", func() {}, []z.ExecOption{marker("X1")}, "X1"},
		{"execution formatter X2", func() {}, []z.ExecOption{marker("X2")}, "X2"},
		{"global formatter G", func() { conf.IssueFormatter = func(e *z.ZogIssue, ctx z.Ctx) { e.SetMessage("G") } }, nil, "G"},
		{"i18n es", func() {
			i18n.SetLanguagesErrsMap(map[string]i18n.LangMap{"en": markerMap("en"), "es": markerMap("es")}, "en")
		}, []z.ExecOption{z.WithCtxValue(i18n.LangKey, "es")}, "L:es"},
		{"i18n default", func() {}, nil, "L:en"},
		{"execution formatter X3 over i18n", func() {}, []z.ExecOption{marker("X3")}, "X3"},
	}
	for i, s := range steps {
		s.setup()
		errs, pan := run(s.opts...)
		if pan != nil {
			return hh.Fail("step %d (%s): panic %v", i, s.name, pan)
		}
		root := errs["$root"]
		if len(root) != 1 {
			return hh.Fail("step %d (%s): expected one issue at $root, got %v", i, s.name, z.Issues.SanitizeMap(errs))
		}
		if root[0].Message != s.want {
			return hh.Fail("step %d (%s): the decode-failure issue carries message %q, this execution's formatter gives %q", i, s.name, root[0].Message, s.want)
		}
		if root[0].Path != "" || root[0].Dtype != "struct" {
			return hh.Fail("step %d (%s): path %q type %q", i, s.name, root[0].Path, root[0].Dtype)
		}
		if i%2 == 1 {
			z.Issues.CollectMap(errs) // handing issues back must not matter either
		}
	}
	return hh.Verdict{Nontrivial: true, Classes: []string{"fe:" + c.FE}}
}

type c11OneOf struct {
	Kind string `json:"kind"` // string | int
	Edit string `json:"edit"`
	Mode string `json:"mode"`
}

func propC11OneOf(c c11OneOf) hh.Verdict {
	run := func(build func() (verdict func(subject int) (failed bool, listed []string))) hh.Verdict {
		verdict := build()
		_, listed := verdict(99) // 99 / "99" is in no version of the list: the issue says which list the test uses
		if listed == nil {
			return hh.Fail("OneOf (%s, %s, %s): a value outside every version of the list was accepted", c.Kind, c.Edit, c.Mode)
		}
		in := map[string]bool{}
		for _, l := range listed {
			in[l] = true
		}
		for subject := 1; subject <= 9; subject++ {
			failed, l2 := verdict(subject)
			if failed && fmt.Sprint(l2) != fmt.Sprint(listed) {
				return hh.Fail("OneOf (%s, %s, %s): two issues of one test report different option lists: %v and %v", c.Kind, c.Edit, c.Mode, listed, l2)
			}
			if failed == in[fmt.Sprint(subject)] {
				return hh.Fail("OneOf (%s, %s, %s): value %d rejected=%v, but the issue of this test reports the options %v", c.Kind, c.Edit, c.Mode, subject, failed, listed)
			}
		}
		return hh.Verdict{Nontrivial: c.Edit != "none", Classes: []string{"edit:" + c.Edit, "kind:" + c.Kind, "mode:" + c.Mode}}
	}
	edit := func(n int, set func(i, v int), app func(v int)) {
		switch c.Edit {
		case "replace-last":
			set(n-1, 7)
		case "replace-first":
			set(0, 8)
		case "append-into-capacity":
			app(6)
		}
	}
	options := func(is *z.ZogIssue) []string {
		var out []string
		rv := reflect.ValueOf(is.Params["one_of_options"])
		if !rv.IsValid() || rv.Kind() != reflect.Slice {
			return []string{"<no one_of_options param>"}
		}
		for i := 0; i < rv.Len(); i++ {
			out = append(out, fmt.Sprint(rv.Index(i).Interface()))
		}
		return out
	}
	if c.Kind == "string" {
		return run(func() func(int) (bool, []string) {
			opts := make([]string, 3, 8)
			copy(opts, []string{"1", "2", "3"})
			s := z.String().OneOf(opts)
			edit(3, func(i, v int) { opts[i] = fmt.Sprint(v) }, func(v int) { _ = append(opts, fmt.Sprint(v)) })
			return func(subject int) (bool, []string) {
				v := fmt.Sprint(subject)
				var iss z.ZogIssueList
				if c.Mode == "parse" {
					var d string
					iss = s.Parse(v, &d)
				} else {
					iss = s.Validate(&v)
				}
				if len(iss) == 0 {
					return false, nil
				}
				return true, options(iss[0])
			}
		})
	}
	return run(func() func(int) (bool, []string) {
		opts := make([]int, 3, 8)
		copy(opts, []int{1, 2, 3})
		s := z.Int().OneOf(opts)
		edit(3, func(i, v int) { opts[i] = v }, func(v int) { _ = append(opts, v) })
		return func(subject int) (bool, []string) {
			v := subject
			var iss z.ZogIssueList
			if c.Mode == "parse" {
				var d int
				iss = s.Parse(v, &d)
			} else {
				iss = s.Validate(&v)
			}
			if len(iss) == 0 {
				return false, nil
			}
			return true, options(iss[0])
		}
	})
}

func TestC11(t *testing.T) {
	h := hh.Start(t, "C11",
		"Part A (exhaustive): every built-in test of every schema type (string 14 + 12 negated, numbers 6 x 5 widths, bool 3, time 3, slice 4+1), required (9 types), not_nil (pointer to 10 types), coerce (9 types), invalid_json (zjson and zhttp, 5 bodies) and invalid_form (3 bodies) x mode x formatter configuration {default, i18n with lang en / es / es-MX (regional key) / none / unknown, i18n with a configured context key (WithLangKey)}; each cell constructs a failing input and inspects the single resulting issue; every cell is non-trivial and distinct. Part B (random): generated schemas/inputs x formatter configurations with a distinguishable marker per level; non-trivial = an issue for which >=2 levels were configured",
		"Part A: code, schema type, params deep-equal to the method's arguments under the documented key, value reference dereferencing to the offending value (coerce: the input), non-empty message without {{placeholders}}. Part B: each issue's message is the marker of the most specific level (test Message/MessageFunc > WithIssueFormatter > global; with i18n the language named in this execution's context, else the default language)",
		"Bool True()/False(): code eq or true/false accepted (documentation names both); the value reference of decode failures is not asserted (the body is consumed)")
	defer h.Finish()
	hh.Enumerate(h, "catalogue", c11Cells, propC11Cell)
	// the same catalogue with a MessageFunc on the test that renders what it is handed (default formatter cells only)
	hh.Enumerate(h, "catalogue-described", func(yield func(c11Cell)) {
		c11Cells(func(c c11Cell) {
			if (c.What == "test" || c.What == "required") && c.Lang == "default" && c.Kind != model.KCustom && !(c.What == "test" && c.Kind == model.KBool && c.Test.Name != "func") {
				// (Bool's True / False / EQ take no options)
				c.Describe = true
				yield(c)
			}
		})
	}, propC11Cell)
	// "fully described": the list a one_of issue reports is the list the test decides by, also when the caller edited
	// its option slice after building the schema (in place, or through an append into spare capacity)
	hh.Enumerate(h, "oneof-options-edited", func(yield func(c11OneOf)) {
		for _, kind := range []string{"string", "int"} {
			for _, edit := range []string{"none", "replace-last", "replace-first", "append-into-capacity"} {
				for _, mode := range modes {
					yield(c11OneOf{Kind: kind, Edit: edit, Mode: mode})
				}
			}
		}
	}, propC11OneOf)
	hh.Enumerate(h, "decode-failure-sequences", func(yield func(c11Seq)) {
		for _, ptr := range []bool{false, true} {
			for _, fe := range []string{"zjson", "zhttp-json"} {
				for _, body := range []string{"null", "[1]", `{"a":`, "", `"s"`} {
					yield(c11Seq{FE: fe, Body: body, Ptr: ptr})
				}
			}
			for _, body := range []string{"a=%zz", "%"} {
				yield(c11Seq{FE: "zhttp-form", Body: body, Ptr: ptr})
			}
		}
	}, propC11Seq)
	for _, mode := range modes {
		cfg := model.DefaultCfg(mode)
		cfg.PPost, cfg.POpts = 0, 0.45
		cfg.PVary, cfg.PAbsent, cfg.PJunk, cfg.PTestSat = 0.5, 0.15, 0.08, 0.5
		hh.Sub(h, "precedence-"+mode, h.N(10000, 60000), func(rt *rapid.T) c11Prec {
			c := model.GenCase(rt, cfg)
			// make message options frequent and unique
			k := 0
			c.Root.Walk(func(n *model.Node) {
				for i := range n.Tests {
					if n.Tests[i].Complex != "" {
						// complex tests report through ctx.Issue() here: a hand-built issue names no type, and the
						// message maps are keyed by type (its author writes the message)
						n.Tests[i].Complex, n.Tests[i].Opts.Path = "ctx", ""
					}
					o := &n.Tests[i].Opts
					if o.Msg != "" {
						k++
						o.Msg = fmt.Sprintf("T%d", k)
					} else if o.Code != "" && n.Tests[i].Name != "func" && rapid.Bool().Draw(rt, "mf") {
						k++
						o.MsgFunc = fmt.Sprintf("F%d", k)
						if rapid.IntRange(0, 3).Draw(rt, "noop") == 0 {
							o.MsgFunc = model.NoopMsgFunc // a MessageFunc that sets nothing: the next level decides
						}
					}
				}
			})
			p := c11Prec{Case: c, I18n: rapid.Bool().Draw(rt, "i18n")}
			if rapid.Bool().Draw(rt, "execfmt") {
				p.Case.Exec.Formatter = "X"
			}
			switch rapid.IntRange(0, 3).Draw(rt, "lang") {
			case 1:
				p.Case.Exec.CtxVals = []model.KV{{K: i18n.LangKey, V: model.Str("es")}}
			case 2:
				p.Case.Exec.CtxVals = []model.KV{{K: i18n.LangKey, V: model.Str("en")}}
			case 3:
				p.Case.Exec.CtxVals = []model.KV{{K: i18n.LangKey, V: model.Str("fr")}}
			}
			return p
		}, propC11Prec)
	}
}
