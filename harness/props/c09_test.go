package props

import (
	"encoding/json"

	"github.com/Oudwins/zog/conf"
	"github.com/Oudwins/zog/i18n"
	"github.com/Oudwins/zog/i18n/en"
	"github.com/Oudwins/zog/i18n/es"
	"github.com/Oudwins/zog/zconst"
	"sort"
	"strings"
	"testing"

	"pgregory.net/rapid"

	"verifharness/hh"
	"verifharness/model"
)

// C09: results do not depend on map iteration or key insertion order.
// Pure metamorphic check: one case is built several times with permuted field
// insertion order and permuted input-map insertion order, each executed several
// times; all runs must agree.

type c09Case struct {
	Variants []model.Case `json:"variants"`
	// Lang: i18n is installed with several languages (two of them regional variants of one language, registered under
	// their regional tags only) and every execution asks for this language
	Lang string `json:"lang,omitempty"`
}

// c09Languages: en (default), es, and Portuguese in two regional variants whose messages are marked.
func c09Languages() map[string]i18n.LangMap {
	mark := func(tag string) i18n.LangMap {
		out := i18n.LangMap{}
		for typ, msgs := range en.Map {
			mm := map[zconst.ZogIssueCode]string{}
			for code, msg := range msgs {
				mm[code] = "[" + tag + "] " + msg
			}
			out[typ] = mm
		}
		return out
	}
	return map[string]i18n.LangMap{"en": en.Map, "es": es.Map, "pt-BR": mark("pt-BR"), "pt-PT": mark("pt-PT"), "pt-AO": mark("pt-AO"), "pt-MZ": mark("pt-MZ")}
}

func cloneCase(c model.Case) model.Case {
	var out model.Case
	if err := json.Unmarshal([]byte(model.JSON(c)), &out); err != nil {
		panic(err)
	}
	return out
}

func permuteNode(rt *rapid.T, n *model.Node) {
	if len(n.Fields) > 1 {
		n.Fields = rapid.Permutation(n.Fields).Draw(rt, "fperm")
	}
	if n.Elem != nil {
		permuteNode(rt, n.Elem)
	}
	for i := range n.Fields {
		permuteNode(rt, n.Fields[i].Node)
	}
}

func permuteVal(rt *rapid.T, v *model.Val) {
	if len(v.M) > 1 {
		v.M = rapid.Permutation(v.M).Draw(rt, "mperm")
	}
	for i := range v.M {
		permuteVal(rt, &v.M[i].V)
	}
	for i := range v.L {
		permuteVal(rt, &v.L[i])
	}
}

// addOrderProbes gives every primitive struct field a passing recorder test so
// that the visit order becomes observable.
func addOrderProbes(n *model.Node) {
	n.Walk(func(x *model.Node) {
		for _, f := range x.Fields {
			if model.IsPrimitive(f.Node.Kind) {
				f.Node.Tests = append([]model.TestSpec{{Name: "func", Str: "pass", Opts: model.Opts{Code: "ord"}}}, f.Node.Tests...)
			}
		}
	})
}

// addSentinelTests: sibling fields report one and the same issue value (kept by the user next to the schema, like a
// sentinel error) from complex tests; the nodes do not catch, the issue carries its message.
func addSentinelTests(rt *rapid.T, root *model.Node) {
	root.Walk(func(x *model.Node) {
		n := 0
		for _, f := range x.Fields {
			if model.IsPrimitive(f.Node.Kind) && f.Node.Catch == nil && n < 4 {
				pred := rapid.SampledFrom([]string{"fail", "fail", "hashEven"}).Draw(rt, "spred")
				f.Node.Tests = append(f.Node.Tests, model.TestSpec{Name: "func", Str: pred, Complex: "sentinel", Opts: model.Opts{Code: "sent"}})
				n++
			}
		}
	})
}

func keyPaths(n *model.Node, prefix string, out map[int]string) {
	out[n.ID] = prefix
	if n.Elem != nil {
		keyPaths(n.Elem, prefix+"/*", out)
	}
	for _, f := range n.Fields {
		keyPaths(f.Node, prefix+"/"+f.Key, out)
	}
}

type c09obs struct {
	issues string
	first  bool
	dest   string
	nil_   bool
	order  string
}

func propC09(reps int) func(c09Case) hh.Verdict {
	return func(cc c09Case) hh.Verdict {
		var ref *c09obs
		orders := map[string]bool{}
		if cc.Lang != "" {
			saved := conf.IssueFormatter
			defer func() { conf.IssueFormatter = saved }()
			i18n.SetLanguagesErrsMap(c09Languages(), "en")
		}
		for vi, c := range cc.Variants {
			if cc.Lang != "" {
				c.Exec.CtxVals = append(append([]model.KV(nil), c.Exec.CtxVals...), model.KV{K: i18n.LangKey, V: model.Str(cc.Lang)})
			}
			c.Root.Number()
			kp := map[int]string{}
			keyPaths(c.Root, "", kp)
			env := &model.Env{}
			schema, typ := model.Build(c.Root, env)
			var in any
			if c.Exec.Mode == "parse" {
				in = c.Input.Go()
			}
			for r := 0; r < reps; r++ {
				dest := newDest(typ, c, false)
				res := model.Run(schema, env, c.Exec, in, dest)
				if res.Panic != nil {
					return hh.Fail("panic (variant %d run %d): %v", vi, r, res.Panic)
				}
				o := &c09obs{nil_: res.NoIssues(), first: true}
				o.issues = fmtIss(res.Norm(true))
				if res.IsMap && res.Map != nil {
					keys := model.SortedKeys(res.Map)
					o.issues += " keys=" + strings.Join(keys, ",")
					f := res.Map["$first"]
					o.first = false
					if len(f) == 1 {
						for _, is := range res.All() {
							if is == f[0] {
								o.first = true
							}
						}
					}
				}
				if o.nil_ {
					o.dest = model.CanonJSON(dest.Elem())
				}
				var ord []string
				for _, ev := range res.Log {
					if ev.Kind == "test" && ev.Idx == 0 {
						ord = append(ord, kp[ev.Node])
					}
				}
				o.order = strings.Join(ord, ">")
				orders[o.order] = true
				if !o.first {
					return hh.Fail("$first is not exactly one of the issues present (variant %d run %d)", vi, r)
				}
				if ref == nil {
					ref = o
					continue
				}
				if o.issues != ref.issues {
					return hh.Fail("issues depend on order: variant %d run %d gave %s, first run gave %s (visit orders %q vs %q)", vi, r, o.issues, ref.issues, o.order, ref.order)
				}
				if o.nil_ != ref.nil_ || o.dest != ref.dest {
					return hh.Fail("destination depends on order: variant %d run %d gave %s, first run gave %s", vi, r, o.dest, ref.dest)
				}
			}
		}
		c0 := cc.Variants[0]
		v := hh.Verdict{Classes: append(shapeClasses(c0.Root), "mode:"+c0.Exec.Mode)}
		maxF := 0
		c0.Root.Walk(func(n *model.Node) {
			if len(n.Fields) > maxF {
				maxF = len(n.Fields)
			}
		})
		switch {
		case len(orders) >= 3:
			v.Classes = append(v.Classes, "orders>=3")
		case len(orders) == 2:
			v.Classes = append(v.Classes, "orders=2")
		default:
			v.Classes = append(v.Classes, "orders=1")
		}
		if maxF > 8 {
			v.Classes = append(v.Classes, "fields>8")
		}
		if !ref.nil_ {
			v.Classes = append(v.Classes, "has-issues")
		}
		v.Nontrivial = maxF >= 2 && len(orders) >= 2
		return v
	}
}

func TestC09(t *testing.T) {
	h := hh.Start(t, "C09",
		"cases = one (schema, input, mode) built K times with permuted schema-field insertion order and permuted input-map insertion order, each executed R times (K x R = 4x3 quick, 6x6 thorough); the visit order of struct fields is observed through recorder tests; non-trivial = some struct has >=2 fields and >=2 distinct visit orders were actually observed among the runs; distinct = FNV-1a of the case JSON",
		"pure metamorphic oracle (no specification): all runs must agree on the issue multiset (path, code, type, message), the key set of the issue map, and on success the destination; $first must be exactly one of the issues present",
		"PostTransforms never fail and struct/slice level tests are data-independent (a failing PostTransform, or a test reading data that a gated PostTransform may or may not have changed, is order-dependent by the documented global gating)",
		"forcing relies on the default toolchain's map layout (<=8 entries: iteration is a rotation of insertion order); the orders actually taken are measured")
	defer h.Finish()
	K, R := h.N(4, 6), h.N(3, 6)
	for _, mode := range []string{"parse", "validate"} {
		cfg := model.DefaultCfg(mode)
		cfg.NoDataTests, cfg.ManyFields = true, true
		cfg.PCatchVary = 0.3 // caught failures are what a shared child context could carry from one field to the next
		cfg.PPre = 0.08      // Preprocess wrappers (Parse only; the check is spec-free)
		cfg.MaxFields = 5
		cfg.PCatch, cfg.PVary, cfg.PAbsent, cfg.PJunk, cfg.PLight = 0.3, 0.3, 0.12, 0.06, 0.3
		cfg.RootKinds = []string{model.KStruct, model.KStruct, model.KSlice, model.KPtr, model.KStruct}
		if h.Thorough() {
			cfg.MaxDepth, cfg.MaxFields, cfg.MaxElems = 4, 7, 5
		}
		gen := func(rt *rapid.T) c09Case {
			base := model.GenCase(rt, cfg)
			if rapid.IntRange(0, 2).Draw(rt, "tmpl") == 0 {
				base.Exec.Formatter = model.TemplateFormatter // messages built from multi-placeholder templates and the tests' parameter maps
			}
			addOrderProbes(base.Root)
			lang := ""
			if base.Exec.Formatter == "" && rapid.IntRange(0, 3).Draw(rt, "i18n") == 0 {
				// a language that is configured, one that is not, and tags that only have relatives among the configured ones
				lang = rapid.SampledFrom([]string{"es", "pt", "pt-CV", "pt-BR", "fr", "PT"}).Draw(rt, "lang")
			}
			if rapid.IntRange(0, 2).Draw(rt, "sentinel") == 0 {
				addSentinelTests(rt, base.Root)
			}
			cc := c09Case{Variants: []model.Case{base}, Lang: lang}
			for k := 1; k < K; k++ {
				v := cloneCase(base)
				permuteNode(rt, v.Root)
				if mode == "parse" {
					permuteVal(rt, &v.Input)
				}
				cc.Variants = append(cc.Variants, v)
			}
			return cc
		}
		hh.Sub(h, mode, h.N(6000, 7000), gen, propC09(R))
	}
	_ = sort.Strings
}
