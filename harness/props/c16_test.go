package props

import (
	"fmt"
	"reflect"
	"sort"
	"strings"
	"testing"

	z "github.com/Oudwins/zog"
	"pgregory.net/rapid"

	"verifharness/hh"
	"verifharness/model"
)

// C16: Pick, Omit, Extend and Merge build independent schemas with set semantics.
// A history of derivations is generated as plain data; after every step every
// live schema is compared with a schema written out by hand from the model.

type c16Op struct {
	Op     string   `json:"op"`               // base | pick | omit | extend | merge | addTest | addPost
	Src    int      `json:"src,omitempty"`    // operand schema index
	Others []int    `json:"others,omitempty"` // merge operands
	Keys   []string `json:"keys,omitempty"`   // pick / omit keys
	AsMap  bool     `json:"asMap,omitempty"`  // pick / omit: pass map[string]bool (with some false entries) instead of strings
	False  []string `json:"false,omitempty"`  // keys passed with value false
	Fields []int    `json:"fields,omitempty"` // base / extend: field definition ids
	Tests  int      `json:"tests,omitempty"`  // base: number of struct tests
	Posts  int      `json:"posts,omitempty"`  // base: number of PostTransforms
}

type c16Case struct {
	Ops    []c16Op     `json:"ops"`
	Inputs []model.Val `json:"inputs"`
	// Spell: how this history spells its top-level schema keys (the destination's fields carry no tags, so "a" and "A"
	// both name field A; the key as spelled is what is looked up in the input and what issue paths show):
	// "" = lower case, "go" = as the Go field (A), "mixed" = every other key as the Go field
	Spell string `json:"spell,omitempty"`
}

func (c c16Case) spell(k string) string {
	switch c.Spell {
	case "go":
		return strings.ToUpper(k)
	case "mixed":
		if k[0]%2 == 0 {
			return strings.ToUpper(k)
		}
	}
	return k
}

type c16Dest struct {
	A string
	B int
	C bool
	D string
	E []string
	// filler fields: wide schemas (operands of 9 and more fields)
	F, G, H, I, J, K, L, M, N, O string
	// a nested struct under a key that several operands define differently
	P struct {
		X string
		Y int
	}
}

// field definitions: several variants per key so that "later operand wins" is observable
type c16FieldDef struct {
	key  string
	make func() z.ZogSchema
}

var c16Fields = []c16FieldDef{
	{"a", func() z.ZogSchema { return z.String().Min(3) }},
	{"a", func() z.ZogSchema { return z.String().Max(1) }},
	{"a", func() z.ZogSchema { return z.String().Required().Contains("x") }},
	{"b", func() z.ZogSchema { return z.Int().GT(5) }},
	{"b", func() z.ZogSchema { return z.Int().LT(0).Required() }},
	{"c", func() z.ZogSchema { return z.Bool().True() }},
	{"c", func() z.ZogSchema { return z.Bool().False() }},
	{"d", func() z.ZogSchema { return z.String().Required() }},
	{"d", func() z.ZogSchema { return z.String().Len(2) }},
	{"e", func() z.ZogSchema { return z.Slice(z.String().Min(2)).Min(2) }},
	{"e", func() z.ZogSchema { return z.Slice(z.String()).Max(1).Required() }},
	// nested struct schemas with different fields: on a conflict the later operand's definition replaces the earlier one as a whole
	{"p", func() z.ZogSchema { return z.Struct(z.Schema{"x": z.String().Required()}) }},
	{"p", func() z.ZogSchema { return z.Struct(z.Schema{"y": z.Int().GT(3)}) }},
	{"p", func() z.ZogSchema {
		return z.Struct(z.Schema{"x": z.String().Min(3), "y": z.Int().Required()}).TestFunc(func(any, z.Ctx) bool { return false }, z.IssueCode("p_struct_test"))
	}},
}

// c16Wide: index of the first filler definition (two conflicting variants for each of the keys f..o)
var c16Wide = len(c16Fields)

func init() {
	for _, k := range []string{"f", "g", "h", "i", "j", "k", "l", "m", "n", "o"} {
		k := k
		c16Fields = append(c16Fields,
			c16FieldDef{k, func() z.ZogSchema { return z.String().Min(2) }},
			c16FieldDef{k, func() z.ZogSchema { return z.String().Max(1).Required() }})
	}
}

// model of one live schema
type c16Model struct {
	keys   []string       // insertion order (irrelevant for behaviour, kept for reporting)
	fields map[string]int // key -> field definition id
	tests  []int          // recorder ids, in order
	posts  []int
}

func (m *c16Model) clone() *c16Model {
	c := &c16Model{fields: map[string]int{}, tests: append([]int(nil), m.tests...), posts: append([]int(nil), m.posts...), keys: append([]string(nil), m.keys...)}
	for k, v := range m.fields {
		c.fields[k] = v
	}
	return c
}

func (m *c16Model) set(key string, def int) {
	if _, ok := m.fields[key]; !ok {
		m.keys = append(m.keys, key)
	}
	m.fields[key] = def
}

func (m *c16Model) del(key string) {
	if _, ok := m.fields[key]; ok {
		delete(m.fields, key)
		for i, k := range m.keys {
			if k == key {
				m.keys = append(m.keys[:i:i], m.keys[i+1:]...)
				break
			}
		}
	}
}

type c16Log struct{ events []string }

func (l *c16Log) test(id int) z.BoolTFunc {
	return func(v any, ctx z.Ctx) bool {
		l.events = append(l.events, fmt.Sprintf("t%d", id))
		return id%3 != 0 // every third recorder fails
	}
}

func (l *c16Log) post(id int) z.PostTransform {
	return func(v any, ctx z.Ctx) error {
		l.events = append(l.events, fmt.Sprintf("p%d", id))
		return nil
	}
}

// handBuilt writes the schema out from its model.
func handBuilt(m *c16Model, l *c16Log, sp func(string) string) *z.StructSchema {
	sm := z.Schema{}
	for k, def := range m.fields {
		sm[sp(k)] = c16Fields[def].make()
	}
	s := z.Struct(sm)
	for _, id := range m.tests {
		s.TestFunc(l.test(id), c16TestOpts(id)...)
	}
	for _, id := range m.posts {
		s.PostTransform(l.post(id))
	}
	return s
}

// c16TestOpts: the options a struct-level test is declared with (a function of its id, so that the schema written out
// by hand declares the same ones): always a code, for some ids also an IssuePath, Params or a Message
func c16TestOpts(id int) []z.TestOption {
	o := []z.TestOption{z.IssueCode(fmt.Sprintf("t%d", id))}
	if id%3 == 0 {
		o = append(o, z.IssuePath(fmt.Sprintf("moved.p%d", id)))
	}
	if id%4 == 1 {
		o = append(o, z.Params(map[string]any{"id": id}))
	}
	if id%5 == 2 {
		o = append(o, z.Message(fmt.Sprintf("message of test %d", id)))
	}
	return o
}

func c16Observe(s *z.StructSchema, l *c16Log, in any) (string, string) {
	l.events = nil
	var d c16Dest
	errs := s.Parse(in, &d)
	var iss []string
	for k, list := range errs {
		if k == "$first" {
			continue
		}
		for _, is := range list {
			iss = append(iss, fmt.Sprintf("%s|%s|%s|%s|%v", is.Path, is.Code, is.Dtype, is.Message, is.Params))
		}
	}
	sort.Strings(iss)
	ev := append([]string(nil), l.events...)
	return strings.Join(iss, ",") + " dest=" + model.CanonJSON(reflect.ValueOf(d)), strings.Join(ev, ">")
}

func propC16(c c16Case) (v hh.Verdict) {
	var live []*z.StructSchema
	var models []*c16Model
	l := &c16Log{}
	nextID := 1
	derivedFrom := map[int]int{} // schema index -> base index it was derived from
	laterAdd, merge3 := false, false
	sp := c.spell
	defer func() {
		if p := recover(); p != nil {
			v = hh.Fail("panic during the history: %v", p)
		}
	}()
	for step, op := range c.Ops {
		switch op.Op {
		case "base":
			m := &c16Model{fields: map[string]int{}}
			sm := z.Schema{}
			for _, def := range op.Fields {
				m.set(c16Fields[def].key, def)
			}
			for k, def := range m.fields {
				sm[sp(k)] = c16Fields[def].make()
			}
			if len(op.Fields) == 0 {
				sm = nil // z.Struct(nil): a hooks-only base
			}
			s := z.Struct(sm)
			for i := 0; i < op.Tests; i++ {
				s.TestFunc(l.test(nextID), c16TestOpts(nextID)...)
				m.tests = append(m.tests, nextID)
				nextID++
			}
			for i := 0; i < op.Posts; i++ {
				s.PostTransform(l.post(nextID))
				m.posts = append(m.posts, nextID)
				nextID++
			}
			live, models = append(live, s), append(models, m)
		case "pick", "omit":
			if op.Src >= len(live) {
				continue
			}
			src, sm := live[op.Src], models[op.Src]
			var args []any
			switch {
			case op.AsMap && len(op.Keys) > 1 && len(op.False) > 0 && op.False[0] == "+mixed":
				// first key as a string, the rest in a map that ALSO lists the first key (and others) as false:
				// false entries are documented to be ignored, they do not cancel a selection made elsewhere
				args = append(args, sp(op.Keys[0]))
				mm := map[string]bool{sp(op.Keys[0]): false}
				for _, k := range op.Keys[1:] {
					mm[sp(k)] = true
				}
				for _, k := range op.False[1:] {
					mm[sp(k)] = false
				}
				args = append(args, mm)
			case op.AsMap:
				mm := map[string]bool{}
				for _, k := range op.Keys {
					mm[sp(k)] = true
				}
				for _, k := range op.False {
					if k != "+mixed" {
						mm[sp(k)] = false
					}
				}
				args = []any{mm}
			default:
				for _, k := range op.Keys {
					args = append(args, sp(k))
				}
			}
			nm := sm.clone()
			var ns *z.StructSchema
			if op.Op == "pick" {
				ns = src.Pick(args...)
				nm.fields, nm.keys = map[string]int{}, nil
				for _, k := range op.Keys {
					if def, ok := sm.fields[k]; ok {
						nm.set(k, def)
					}
				}
			} else {
				ns = src.Omit(args...)
				for _, k := range op.Keys {
					nm.del(k)
				}
			}
			derivedFrom[len(live)] = op.Src
			live, models = append(live, ns), append(models, nm)
		case "extend":
			if op.Src >= len(live) {
				continue
			}
			ext := z.Schema{}
			nm := models[op.Src].clone()
			seen := map[string]bool{}
			for _, def := range op.Fields {
				k := c16Fields[def].key
				if seen[k] {
					continue
				}
				seen[k] = true
				ext[sp(k)] = c16Fields[def].make()
				nm.set(k, def)
			}
			derivedFrom[len(live)] = op.Src
			live, models = append(live, live[op.Src].Extend(ext)), append(models, nm)
		case "merge":
			if op.Src >= len(live) || len(op.Others) == 0 {
				continue
			}
			var others []*z.StructSchema
			nm := models[op.Src].clone()
			conflict := false
			ok := true
			for _, o := range op.Others {
				if o >= len(live) {
					ok = false
					break
				}
				others = append(others, live[o])
				for _, k := range models[o].keys {
					if _, dup := nm.fields[k]; dup {
						conflict = true
					}
					nm.set(k, models[o].fields[k])
				}
				nm.tests = append(nm.tests, models[o].tests...)
				nm.posts = append(nm.posts, models[o].posts...)
			}
			if !ok {
				continue
			}
			if len(op.Others) >= 2 && conflict {
				merge3 = true
			}
			// the operands are handed over as callers build such lists: appended to a slice with room to spare, the first
			// one split off, the rest spread
			list := make([]*z.StructSchema, 0, len(others)+3)
			list = append(list, others...)
			merged := live[op.Src].Merge(list[0], list[1:]...)
			for i := range others {
				if list[i] != others[i] {
					return hh.Fail("after step %d (merge): Merge rewrote the caller's list of operands: position %d now holds another schema", step, i)
				}
			}
			if extra := list[:cap(list)][len(list):]; extra[0] != nil || extra[1] != nil || extra[2] != nil {
				return hh.Fail("after step %d (merge): Merge wrote into the spare capacity of the caller's list of operands", step)
			}
			live, models = append(live, merged), append(models, nm)
		case "addTest":
			if op.Src >= len(live) {
				continue
			}
			live[op.Src].TestFunc(l.test(nextID), c16TestOpts(nextID)...)
			models[op.Src].tests = append(models[op.Src].tests, nextID)
			nextID++
			laterAdd = laterAdd || siblingsExist(derivedFrom, op.Src)
		case "addPost":
			if op.Src >= len(live) {
				continue
			}
			live[op.Src].PostTransform(l.post(nextID))
			models[op.Src].posts = append(models[op.Src].posts, nextID)
			nextID++
			laterAdd = laterAdd || siblingsExist(derivedFrom, op.Src)
		}
		// invariant: every live schema behaves like its hand-written equivalent
		for i, s := range live {
			hb := handBuilt(models[i], l, sp)
			for _, in := range c.Inputs {
				data := in.Go()
				if m, ok := data.(map[string]any); ok && c.Spell != "" {
					rk := make(map[string]any, len(m))
					for k, x := range m {
						rk[sp(k)] = x
					}
					data = rk
				}
				gotR, gotE := c16Observe(s, l, data)
				wantR, wantE := c16Observe(hb, l, data)
				if gotR != wantR || gotE != wantE {
					return hh.Fail("after step %d (%s): schema #%d differs from its hand-written equivalent (fields %v tests %v posts %v) on %s:\n got  %s  callbacks %s\n want %s  callbacks %s",
						step, op.Op, i, models[i].fields, models[i].tests, models[i].posts, model.JSON(in), gotR, gotE, wantR, wantE)
				}
			}
		}
	}
	v = hh.Verdict{Classes: []string{fmt.Sprintf("schemas:%d", min(len(live), 6)), "keys-spelled:" + c.Spell}}
	if laterAdd {
		v.Classes = append(v.Classes, "sibling-extended-later")
	}
	if merge3 {
		v.Classes = append(v.Classes, "merge>=3-with-conflict")
	}
	for _, op := range c.Ops {
		if op.Op == "omit" && len(op.Keys) == 0 {
			v.Classes = append(v.Classes, "omit-removing-nothing")
			break
		}
	}
	v.Nontrivial = laterAdd || merge3
	return v
}

// siblingsExist: the schema (or its base) has at least one other schema derived from the same base.
func siblingsExist(derivedFrom map[int]int, idx int) bool {
	base, ok := derivedFrom[idx]
	if !ok {
		base = idx
	}
	n := 0
	for i, b := range derivedFrom {
		if b == base && i != idx {
			n++
		}
	}
	return n >= 1
}

func genC16(rt *rapid.T, maxOps int) c16Case {
	var c c16Case
	nlive := 0
	liveKeys := [][]string{}
	defs := make([]int, len(c16Fields))
	for i := range defs {
		defs[i] = i
	}
	keysOf := func(fields []int) []string {
		seen := map[string]bool{}
		var out []string
		for _, d := range fields {
			if k := c16Fields[d].key; !seen[k] {
				seen[k] = true
				out = append(out, k)
			}
		}
		return out
	}
	n := rapid.IntRange(3, maxOps).Draw(rt, "nops")
	for i := 0; i < n; i++ {
		kind := "base"
		if nlive > 0 {
			kind = rapid.SampledFrom([]string{"pick", "omit", "addTest", "extend", "addPost", "merge", "addTest", "pick", "base", "omit"}).Draw(rt, "op")
		}
		switch kind {
		case "base":
			f := rapid.SliceOfNDistinct(rapid.SampledFrom(defs[:c16Wide]), 1, 5, rapid.ID[int]).Draw(rt, "fields")
			if rapid.IntRange(0, 11).Draw(rt, "hooksonly") == 0 {
				f = nil // a base without fields (z.Struct(nil)): only struct-level tests and PostTransforms to be merged / extended into others
			}
			if f != nil && rapid.IntRange(0, 5).Draw(rt, "wide") == 0 {
				f = append(f, rapid.SliceOfNDistinct(rapid.SampledFrom(defs[c16Wide:]), 4, 12, rapid.ID[int]).Draw(rt, "wfields")...)
			}
			c.Ops = append(c.Ops, c16Op{Op: "base", Fields: f, Tests: rapid.IntRange(0, 5).Draw(rt, "nt"), Posts: rapid.IntRange(0, 3).Draw(rt, "np")})
			liveKeys = append(liveKeys, keysOf(f))
			nlive++
		case "pick", "omit":
			src := rapid.IntRange(0, nlive-1).Draw(rt, "src")
			ks := liveKeys[src]
			if len(ks) == 0 {
				continue
			}
			minSel := 1
			if kind == "omit" && rapid.IntRange(0, 4).Draw(rt, "noop") == 0 {
				minSel = 0 // an Omit that removes nothing (no arguments, or only false entries) still returns a schema of its own
			}
			sel := rapid.SliceOfNDistinct(rapid.SampledFrom(ks), minSel, max(minSel, len(ks)*minSel), rapid.ID[string]).Draw(rt, "keys")
			op := c16Op{Op: kind, Src: src, Keys: sel, AsMap: rapid.Bool().Draw(rt, "asmap")}
			if op.AsMap {
				if len(sel) > 1 && rapid.Bool().Draw(rt, "mixed") {
					op.False = append(op.False, "+mixed")
				}
				for _, k := range ks {
					in := false
					for _, s := range sel {
						in = in || s == k
					}
					if !in && rapid.Bool().Draw(rt, "false") {
						op.False = append(op.False, k)
					}
				}
			}
			c.Ops = append(c.Ops, op)
			var nk []string
			if kind == "pick" {
				nk = sel
			} else {
				for _, k := range ks {
					in := false
					for _, s := range sel {
						in = in || s == k
					}
					if !in {
						nk = append(nk, k)
					}
				}
			}
			liveKeys = append(liveKeys, nk)
			nlive++
		case "extend":
			src := rapid.IntRange(0, nlive-1).Draw(rt, "src")
			f := rapid.SliceOfNDistinct(rapid.SampledFrom(defs[:c16Wide]), 1, 3, rapid.ID[int]).Draw(rt, "ef")
			if rapid.IntRange(0, 5).Draw(rt, "ewide") == 0 {
				f = append(f, rapid.SliceOfNDistinct(rapid.SampledFrom(defs[c16Wide:]), 4, 12, rapid.ID[int]).Draw(rt, "ewf")...)
			}
			c.Ops = append(c.Ops, c16Op{Op: "extend", Src: src, Fields: f})
			liveKeys = append(liveKeys, append(append([]string(nil), liveKeys[src]...), keysOf(f)...))
			nlive++
		case "merge":
			src := rapid.IntRange(0, nlive-1).Draw(rt, "src")
			others := rapid.SliceOfN(rapid.IntRange(0, nlive-1), 1, 3).Draw(rt, "others")
			c.Ops = append(c.Ops, c16Op{Op: "merge", Src: src, Others: others})
			nk := append([]string(nil), liveKeys[src]...)
			for _, o := range others {
				nk = append(nk, liveKeys[o]...)
			}
			liveKeys = append(liveKeys, dedupe(nk))
			nlive++
		case "addTest", "addPost":
			c.Ops = append(c.Ops, c16Op{Op: kind, Src: rapid.IntRange(0, nlive-1).Draw(rt, "src")})
		}
		// aliasing needs later additions to BOTH a derived schema and (one of) its operands: follow a derivation
		// with such a burst half of the time
		if last := c.Ops[len(c.Ops)-1]; (last.Op == "pick" || last.Op == "omit" || last.Op == "extend" || last.Op == "merge") && rapid.Bool().Draw(rt, "burst") {
			derived := nlive - 1
			operands := append([]int{last.Src}, last.Others...)
			what := rapid.SampledFrom([]string{"addTest", "addPost"}).Draw(rt, "bwhat")
			seq := []int{derived, rapid.SampledFrom(operands).Draw(rt, "bop")}
			if rapid.Bool().Draw(rt, "bswap") {
				seq[0], seq[1] = seq[1], seq[0]
			}
			if rapid.Bool().Draw(rt, "bthird") {
				seq = append(seq, rapid.SampledFrom(append(operands, derived)).Draw(rt, "bop3"))
			}
			for _, idx := range seq {
				c.Ops = append(c.Ops, c16Op{Op: what, Src: idx})
			}
		}
	}
	vals := map[string][]model.Val{
		"a": {model.Str("axx"), model.Str("x"), model.Str("abcd"), model.Nil()},
		"b": {model.Int(7), model.Int(-1), model.Int(3), model.Nil()},
		"c": {model.Bool(true), model.Bool(false), model.Nil()},
		"d": {model.Str("dd"), model.Str("d"), model.Nil()},
		"e": {model.List(model.Str("e1"), model.Str("e2")), model.List(model.Str("e")), model.Nil()},
		"p": {model.Map(model.KV{K: "x", V: model.Str("xx")}, model.KV{K: "y", V: model.Int(5)}), model.Map(model.KV{K: "y", V: model.Int(1)}), model.Map(model.KV{K: "x", V: model.Str("xxxx")}), model.Nil()},
	}
	wideKeys := []string{"f", "g", "h", "i", "j", "k", "l", "m", "n", "o"}
	for i, k := 0, rapid.IntRange(2, 3).Draw(rt, "ninputs"); i < k; i++ {
		in := model.Val{T: "map"}
		for _, key := range []string{"a", "b", "c", "d", "e", "p"} {
			v := rapid.SampledFrom(vals[key]).Draw(rt, "v"+key)
			if !v.IsNil() {
				in.M = append(in.M, model.KV{K: key, V: v})
			}
		}
		// filler keys: one of "w" (fits Max(1)), "ww" (fits Min(2)) or absent, by a single draw per input
		pat := rapid.IntRange(0, 59048).Draw(rt, "wpat")
		for _, key := range wideKeys {
			switch pat % 3 {
			case 0:
				in.M = append(in.M, model.KV{K: key, V: model.Str("w")})
			case 1:
				in.M = append(in.M, model.KV{K: key, V: model.Str("ww")})
			}
			pat /= 3
		}
		c.Inputs = append(c.Inputs, in)
	}
	c.Spell = rapid.SampledFrom([]string{"", "", "go", "mixed"}).Draw(rt, "spell")
	return c
}

func dedupe(a []string) []string {
	seen := map[string]bool{}
	var out []string
	for _, s := range a {
		if !seen[s] {
			seen[s] = true
			out = append(out, s)
		}
	}
	return out
}

func TestC16(t *testing.T) {
	h := hh.Start(t, "C16",
		"cases = histories of 3..14 (quick) / 3..30 (thorough) steps over a growing set of live schemas: new base (1-5 fields from a pool with conflicting variants per key, a sixth of them widened by 4-12 filler fields, 0-5 struct tests, 0-3 PostTransforms), Pick / Omit (string keys or map[string]bool incl. false entries), Extend, Merge (1-3 further operands), later TestFunc / PostTransform on any live schema; 2-3 random inputs; non-trivial = a test or PostTransform is added to a schema that has a sibling derived from the same base, or a Merge of >=3 operands with a key conflict; distinct = FNV-1a of the case JSON",
		"model-based: each live schema is mirrored by (field map, test ids, PostTransform ids) updated with the documented set semantics (later operand wins, tests and PostTransforms kept, concatenated in operand order for Merge); after EVERY step EVERY live schema must behave on every input exactly like a schema written out by hand from its model: same issues, same destination, same sequence of callback invocations",
		"keys picked / omitted are drawn from the operand's own keys (picking a missing key is misconfiguration)")
	defer h.Finish()
	maxOps := h.N(14, 30)
	hh.Sub(h, "histories", h.N(6000, 9000), func(rt *rapid.T) c16Case { return genC16(rt, maxOps) }, propC16)
}
