package props

import (
	"encoding/json"
	"fmt"
	"net/http"
	"os"
	"path/filepath"
	"reflect"
	"strings"
	"testing"

	z "github.com/Oudwins/zog"
	"github.com/Oudwins/zog/parsers/zjson"
	"github.com/Oudwins/zog/zhttp"
	"pgregory.net/rapid"

	"verifharness/hh"
	"verifharness/model"
)

// Native fuzz targets (thorough tier only; driven by ./fuzz_stage). Each target
// carries the property's oracle; a failure is saved in the same replay format
// as the rapid checks, so ./check <id> --replay <file> re-evaluates it.

func saveFuzzFailure(id, sub string, c any, msg string) string {
	root := os.Getenv("VERIF_ROOT")
	if root == "" {
		root = "/verif"
	}
	dir := filepath.Join(root, "replay", id)
	os.MkdirAll(dir, 0o755)
	cj := model.JSON(c)
	path := filepath.Join(dir, fmt.Sprintf("%s-fuzz-%016x.json", sub, model.Hash(cj)))
	b, _ := json.MarshalIndent(map[string]any{"property": id, "sub": sub, "error": msg, "case": json.RawMessage(cj)}, "", " ")
	os.WriteFile(path, b, 0o644)
	return path
}

func fuzzVerdict(t interface{ Fatalf(string, ...any) }, id, sub string, c any, v hh.Verdict) {
	if v.Err != "" {
		p := saveFuzzFailure(id, sub, c, v.Err)
		t.Fatalf("VIOLATION property=%s replay=%s\n%s", id, p, v.Err)
	}
}

func fuzzCfg() model.GenCfg {
	cfg := model.DefaultCfg("parse")
	cfg.PPre, cfg.ManyFields, cfg.LongKeys = 0.06, true, true
	cfg.PostBehaviours = []string{"record", "mutate"}
	cfg.PPost, cfg.PVary, cfg.PAbsent, cfg.PJunk = 0.1, 0.2, 0.1, 0.05
	return cfg
}

// FuzzC06Wild: coverage-guided version of the C06 wild-input search (rapid generator driven by the fuzzer's bytes).
func FuzzC06Wild(f *testing.F) {
	cfg := fuzzCfg()
	f.Fuzz(rapid.MakeFuzz(func(rt *rapid.T) {
		c := model.RoundTrip(genC06(rt, cfg))
		fuzzVerdict(rt, "C06", "wild-inputs", c, propC06(c))
	}))
}

var fuzzSchemas = []*model.Node{
	{Kind: model.KStruct, Fields: []model.Field{
		{Key: "name", Tags: map[string]string{"json": "name"}, Node: &model.Node{Kind: model.KString, Req: true, Tests: []model.TestSpec{{Name: "min", N: 2}}}},
		{Key: "age", Node: &model.Node{Kind: model.KInt}},
		{Key: "tags", Node: &model.Node{Kind: model.KSlice, Elem: &model.Node{Kind: model.KString}}},
		{Key: "addr", Node: &model.Node{Kind: model.KStruct, Fields: []model.Field{{Key: "zip", Node: &model.Node{Kind: model.KString}}, {Key: "n", Node: &model.Node{Kind: model.KFloat32}}}}},
		{Key: "p", Node: &model.Node{Kind: model.KPtr, Elem: &model.Node{Kind: model.KStruct, Fields: []model.Field{{Key: "when", Node: &model.Node{Kind: model.KTime}}, {Key: "ok", Node: &model.Node{Kind: model.KBool}}}}}},
		{Key: "items", Node: &model.Node{Kind: model.KSlice, Elem: &model.Node{Kind: model.KStruct, Fields: []model.Field{{Key: "id", Node: &model.Node{Kind: model.KInt64}}}}}},
	}},
}

// FuzzC06JSONBody: arbitrary bytes as a JSON document through zjson and zhttp against fixed schemas.
func FuzzC06JSONBody(f *testing.F) {
	for _, s := range []string{`{}`, `null`, `[]`, `1`, `{"name":"ab","age":1,"tags":["a"],"addr":{"zip":"z","n":1.5},"p":{"when":"2024-01-01T00:00:00Z","ok":true},"items":[{"id":1}]}`,
		`{"name":null,"addr":[],"p":1,"items":{}}`, `{"name":{"name":{}}}`, `{"age":1e999}`, `{"items":[null,1,"x",{"id":"9223372036854775808"}]}`, "{\"name\":\"\xff\"}", `{"a":1}{"b":2}`} {
		f.Add([]byte(s))
	}
	f.Fuzz(func(t *testing.T, body []byte) {
		for _, fe := range []string{"json", "http-json"} {
			for _, root := range fuzzSchemas {
				c := c06Case{Root: root, FE: fe, Text: string(body)}
				fuzzVerdict(t, "C06", "wild-inputs", c, propC06(c))
			}
		}
	})
}

// FuzzC15Request: method / content type from the catalogue, body and query free.
func FuzzC15Request(f *testing.F) {
	f.Add(uint8(2), uint8(1), `{"name":"J","tags":["a"]}`, "name=Q&tags%5B%5D=1")
	f.Add(uint8(2), uint8(5), "name=B&tags%5B%5D=1", "")
	f.Add(uint8(0), uint8(0), "", "name=Q1&name=Q2")
	f.Add(uint8(3), uint8(5), "name=%zz", "a=;b")
	f.Add(uint8(4), uint8(1), "{}", "")
	f.Fuzz(func(t *testing.T, m, ct uint8, body, query string) {
		if strings.ContainsAny(query, " #\x7f") || strings.ContainsRune(query, 0) {
			return
		}
		for _, r := range query {
			if r < 0x20 {
				return
			}
		}
		c := c15Case{Method: c15Methods[int(m)%len(c15Methods)], CType: c15CTypes[int(ct)%len(c15CTypes)], Body: body, Query: query}
		fuzzVerdict(t, "C15", "random-requests", c, propC15(c))
	})
}

// FuzzC20String: the string tests against the reference predicates on arbitrary subjects.
func FuzzC20String(f *testing.F) {
	for _, s := range []string{"", "a@b.c", "http://a.b", "123e4567-e89b-12d3-a456-426614174000", "Aa1!", "日本", "\xff", "a@b", "x://h", "abz"} {
		f.Add(s, uint8(0), uint8(3), "ab")
	}
	names := []string{"min", "max", "len", "email", "uuid", "upper", "digit", "special", "prefix", "suffix", "contains", "match", "oneof", "url"}
	f.Fuzz(func(t *testing.T, s string, which, n uint8, arg string) {
		name := names[int(which)%len(names)]
		ts := model.TestSpec{Name: name, N: int(n % 12), Str: arg, Not: which >= 128 && name != "min" && name != "max"}
		switch name {
		case "match":
			ts.Str = model.MatchMenuKeys[int(n)%len(model.MatchMenuKeys)]
		case "oneof":
			ts.Args = []model.Val{model.Str(arg), model.Str("x")}
		case "url":
			if _, certain := model.URLVerdict(s); !certain {
				return
			}
		}
		for _, mode := range modes {
			c := c20Case{Kind: model.KString, Test: ts, Subject: model.Str(s), Mode: mode}
			fuzzVerdict(t, "C20", "string-relations", c, propC20(nil)(c))
		}
	})
}

var _ = reflect.TypeOf
var _ = http.MethodGet
var _ = z.String
var _ = zjson.Decode
var _ = zhttp.Request
