package props

import (
	"encoding/json"
	"fmt"
	"io"
	"net/http"
	"net/url"
	"reflect"
	"strings"
	"testing"

	z "github.com/Oudwins/zog"
	"github.com/Oudwins/zog/zhttp"
	"pgregory.net/rapid"

	"verifharness/hh"
	"verifharness/model"
)

// C15: zhttp picks the documented source and reports undecodable requests as one issue.

type c15Case struct {
	Method string `json:"method"`
	CType  string `json:"ctype"` // "" = header absent
	Body   string `json:"body"`
	Query  string `json:"query"`            // raw query string without '?'
	Ptr    bool   `json:"ptr,omitempty"`    // the schema is z.Ptr(z.Struct(...)): "the record may not exist"
	NotNil bool   `json:"notNil,omitempty"` // with Ptr: z.Ptr(z.Struct(...)).NotNil()
	// Pre: what a middleware did with the request before the handler: "" | parseform (r.ParseForm) | formvalue
	// (r.FormValue, which also parses a multipart body)
	Pre string `json:"pre,omitempty"`
	// Len: how the body reaches net/http: "" a reader of known length | unknown (a reader type whose length the
	// client does not know: ContentLength 0 with a body) | chunked (ContentLength -1, as a server sees a chunked body)
	Len string `json:"len,omitempty"`
	// Empty: the schema has no fields at all (an endpoint without parameters): the request is decoded all the same
	Empty bool `json:"empty,omitempty"`
}

const c15Multipart = "--x\r\nContent-Disposition: form-data; name=\"name\"\r\n\r\nM-name\r\n--x\r\nContent-Disposition: form-data; name=\"opt\"\r\n\r\nM-opt\r\n--x\r\nContent-Disposition: form-data; name=\"tags[]\"\r\n\r\nM1\r\n--x--\r\n"

type c15Dest struct {
	Name string   `json:"name" form:"name" query:"name"`
	Tags []string `json:"tags" form:"tags[]" query:"tags[]"`
	Opt  string   `json:"opt" form:"opt" query:"opt"`
	List []string `json:"list" form:"list" query:"list"`
}

type c15Raw struct {
	called bool
	val    any
}

// mediaType implements the documented reading of the header: the media type
// is what precedes the first ';' (parameters such as charset are ignored).
func mediaType(ct string) string {
	mt, _, _ := strings.Cut(ct, ";")
	return mt
}

func presented(vals url.Values, key string) (any, bool) {
	vs := vals[key]
	switch {
	case len(vs) == 0:
		return nil, false
	case strings.HasSuffix(key, "[]") || len(vs) > 1:
		l := make([]string, len(vs))
		copy(l, vs)
		return l, true
	}
	return vs[0], true
}

// c15Prelude is what a server has done before any request it handles: answered earlier requests, some of them
// invalid, and handed their issues back through the documented Collect helper. Every case starts from that state
// (the case itself stays a pure function of its own request).
func c15Prelude() {
	s := z.Struct(z.Schema{"name": z.String().Required().Min(5), "tags": z.Slice(z.String().Min(3)).Required()})
	var d c15Dest
	req, _ := http.NewRequest("GET", "http://example.test/p?name=ab&tags%5B%5D=x&tags%5B%5D=yz", nil)
	if errs := s.Parse(zhttp.Request(req), &d); errs != nil {
		z.Issues.CollectMap(errs)
	}
}

func propC15(c c15Case) hh.Verdict {
	raws := map[string]*c15Raw{"name": {}, "tags": {}, "opt": {}, "list": {}}
	rec := func(field string, slice bool) z.CoercerFunc {
		return func(data any) (any, error) {
			raws[field].called = true
			raws[field].val = data
			if slice {
				switch v := data.(type) {
				case []string:
					return v, nil
				case []any:
					out := make([]string, len(v))
					for i, e := range v {
						out[i] = fmt.Sprint(e)
					}
					return out, nil
				}
				return []string{fmt.Sprint(data)}, nil
			}
			return fmt.Sprint(data), nil
		}
	}
	elemCalls := 0
	schema := z.Struct(z.Schema{
		"name": z.String(z.WithCoercer(rec("name", false))).Required(),
		"tags": z.Slice(z.String().TestFunc(func(v any, ctx z.Ctx) bool { elemCalls++; return true }), z.WithCoercer(rec("tags", true))).Required(),
		"opt":  z.String(z.WithCoercer(rec("opt", false))),
		"list": z.Slice(z.String(), z.WithCoercer(rec("list", true))),
	})
	if c.Empty {
		schema = z.Struct(z.Schema{})
	}
	target := "http://example.test/p"
	if c.Query != "" {
		target += "?" + c.Query
	}
	var body io.Reader = strings.NewReader(c.Body)
	if c.Len != "" {
		body = io.NopCloser(strings.NewReader(c.Body))
	}
	req, err := http.NewRequest(c.Method, target, body)
	if err != nil {
		return hh.Verdict{Skip: "request-not-constructible"}
	}
	if c.Len == "chunked" {
		req.ContentLength = -1
		req.TransferEncoding = []string{"chunked"}
	}
	if c.CType != "" {
		req.Header.Set("Content-Type", c.CType)
	}
	switch c.Pre {
	case "parseform":
		_ = req.ParseForm()
	case "formvalue":
		_ = req.FormValue("csrf_token")
	}
	sentinel := c15Dest{Name: "§N", Tags: []string{"§T"}, Opt: "§O", List: []string{"§L"}}
	dest := sentinel
	var errs z.ZogIssueMap
	var pan any
	c15Prelude()
	factory := zhttp.Request(req)
	func() {
		defer func() { pan = recover() }()
		if c.Ptr {
			dp := &dest
			ps := z.Ptr(schema)
			if c.NotNil {
				ps = ps.NotNil()
			}
			errs = ps.Parse(factory, &dp)
			if dp != &dest {
				pan = "the pointer schema replaced a non-nil destination pointer"
			}
		} else {
			errs = schema.Parse(factory, &dest)
		}
	}()
	if pan != nil {
		return hh.Fail("panic: %v", pan)
	}
	// ---- expectation ----
	source := "query"
	if c.Method != "GET" && c.Method != "HEAD" {
		switch mediaType(c.CType) {
		case "application/json":
			source = "json"
		case "application/x-www-form-urlencoded":
			source = "form"
		}
	}
	v := hh.Verdict{Classes: []string{"source:" + source, "method:" + c.Method}}
	decodeFail := ""
	var rec2 map[string]any // what each field is presented with; missing key = absent
	switch source {
	case "json":
		var m map[string]any
		dec := json.NewDecoder(strings.NewReader(c.Body))
		if err := dec.Decode(&m); err != nil || m == nil {
			decodeFail = "invalid_json"
		} else {
			if dec.More() {
				return hh.Verdict{Skip: "json-followed-by-trailing-data"}
			}
			rec2 = m
		}
	case "form":
		vals := url.Values{}
		bodyRead := c.Method == "POST" || c.Method == "PUT" || c.Method == "PATCH"
		var perr error
		if bodyRead {
			bv, e := url.ParseQuery(c.Body)
			perr = e
			for k, l := range bv {
				vals[k] = append(vals[k], l...)
			}
		}
		qv, e := url.ParseQuery(c.Query)
		if perr == nil {
			perr = e
		}
		for k, l := range qv {
			vals[k] = append(vals[k], l...)
		}
		if perr != nil && c.Pre != "" {
			// net/http reports a malformed form to the first caller of ParseForm only (here: the middleware)
			return hh.Verdict{Skip: "malformed-form-already-parsed-by-a-middleware"}
		}
		if perr != nil {
			decodeFail = "invalid_form"
		} else {
			rec2 = map[string]any{}
			for _, k := range []string{"name", "tags[]", "opt", "list"} {
				if pv, ok := presented(vals, k); ok {
					rec2[strings.TrimSuffix(k, "[]")] = pv
				}
			}
		}
	default:
		qv, _ := url.ParseQuery(c.Query) // the query parser keeps the well-formed pairs
		rec2 = map[string]any{}
		for _, k := range []string{"name", "tags[]", "opt", "list"} {
			if pv, ok := presented(qv, k); ok {
				rec2[strings.TrimSuffix(k, "[]")] = pv
			}
		}
	}
	if c.Ptr && source == "json" && decodeFail == "" && len(rec2) == 0 {
		// an empty object under a pointer root: the record does not exist (pinned by the repository's tests):
		// no issue, schema not run, destination untouched
		for f, r := range raws {
			if r.called {
				return hh.Fail("{} under Ptr(Struct): the schema ran (coercer of %q was called)", f)
			}
		}
		if c.NotNil {
			// ... and a record that must exist is reported as missing: exactly one not_nil issue at the root
			if len(errs) != 2 || len(errs["$root"]) != 1 || errs["$root"][0].Code != "not_nil" || !reflect.DeepEqual(dest, sentinel) {
				return hh.Fail("{} under Ptr(Struct).NotNil(): expected exactly one not_nil issue at $root and an untouched destination, got %v / %+v", z.Issues.SanitizeMap(errs), dest)
			}
		} else if errs != nil || !reflect.DeepEqual(dest, sentinel) {
			return hh.Fail("{} under Ptr(Struct): expected no issues and an untouched destination, got %v / %+v", z.Issues.SanitizeMap(errs), dest)
		}
		v.Classes = append(v.Classes, "empty-object-under-pointer")
		v.Nontrivial = true
		return v
	}
	if decodeFail != "" {
		v.Classes = append(v.Classes, "decode-failure")
		v.Nontrivial = true
		n := 0
		for k, l := range errs {
			if k != "$first" {
				n += len(l)
			}
		}
		root := errs["$root"]
		if n != 1 || len(root) != 1 || root[0].Code != decodeFail {
			return hh.Fail("undecodable %s request: expected exactly one %s issue at $root, got %v", source, decodeFail, z.Issues.SanitizeMap(errs))
		}
		for f, r := range raws {
			if r.called {
				return hh.Fail("undecodable request but the schema ran (coercer of %q was called)", f)
			}
		}
		if elemCalls != 0 || !reflect.DeepEqual(dest, sentinel) {
			return hh.Fail("undecodable request but the destination was touched: %+v", dest)
		}
		if !c.Ptr && decodeFail == "invalid_json" { // (net/http reports a malformed form to the first ParseForm only)
			// a request that cannot be decoded cannot be decoded the second time either: handing the same provider to
			// another schema (an envelope schema and a payload schema share one request) gives the same single issue
			dest2 := sentinel
			var errs2 z.ZogIssueMap
			func() {
				defer func() { pan = recover() }()
				errs2 = schema.Parse(factory, &dest2)
			}()
			if pan != nil {
				return hh.Fail("panic on the second use of the provider: %v", pan)
			}
			if r2 := errs2["$root"]; len(errs2) != 2 || len(r2) != 1 || r2[0].Code != decodeFail || !reflect.DeepEqual(dest2, sentinel) {
				return hh.Fail("undecodable %s request handed to a second schema: expected exactly one %s issue at $root and an untouched destination, got %v / %+v", source, decodeFail, z.Issues.SanitizeMap(errs2), dest2)
			}
		}
		return v
	}
	if c.Empty {
		if errs != nil || !reflect.DeepEqual(dest, sentinel) {
			return hh.Fail("a decodable %s request and a schema without fields: expected no issues and an untouched destination, got %v / %+v", source, z.Issues.SanitizeMap(errs), dest)
		}
		v.Classes = append(v.Classes, "schema-without-fields")
		return v
	}
	// which fields are present, by the Parse absent rule
	for _, f := range []string{"name", "tags", "opt", "list"} {
		pv, has := rec2[f]
		absent := !has || model.IsParseAbsent(pv)
		r := raws[f]
		if absent {
			if r.called {
				return hh.Fail("field %q is absent in the %s source but the schema was handed %T(%v)", f, source, r.val, r.val)
			}
			wantReq := f == "name" || f == "tags"
			got := 0
			pathKey := f
			if f == "tags" && source != "json" {
				pathKey = "tags[]" // the issue path is the source-specific key
			}
			for _, is := range errs[pathKey] {
				if is.Code == "required" {
					got++
				}
			}
			if wantReq && got != 1 {
				return hh.Fail("required field %q is absent in the %s source: expected one required issue, got %v", f, source, z.Issues.SanitizeMap(errs))
			}
			continue
		}
		if !r.called {
			return hh.Fail("field %q is present in the %s source (%v) but was never handed to the schema; issues %v", f, source, pv, z.Issues.SanitizeMap(errs))
		}
		// the presented value: same shape (string vs list) and content
		if !sameRaw(r.val, pv) {
			return hh.Fail("field %q: the %s source should present %T(%v) but the schema was handed %T(%v)", f, source, pv, pv, r.val, r.val)
		}
		if _, isList := pv.([]string); isList {
			v.Classes = append(v.Classes, "list-valued")
			v.Nontrivial = true
		}
	}
	if len(errs) > 0 {
		for k, l := range errs {
			for _, is := range l {
				if k != "$first" && is.Code != "required" {
					return hh.Fail("unexpected issue %s at %q", is.Code, k)
				}
			}
		}
	}
	if c.Method != "GET" && c.Method != "HEAD" && c.CType != "" {
		v.Nontrivial = true
	}
	return v
}

func sameRaw(got, want any) bool {
	switch w := want.(type) {
	case string:
		g, ok := got.(string)
		return ok && g == w
	case []string:
		g, ok := got.([]string)
		return ok && reflect.DeepEqual(g, w)
	}
	// JSON values
	return fmt.Sprintf("%T|%v", got, got) == fmt.Sprintf("%T|%v", want, want)
}

var c15Methods = []string{"GET", "HEAD", "POST", "PUT", "PATCH", "DELETE", "OPTIONS", "FOO"}
var c15CTypes = []string{"", "application/json", "application/json; charset=utf-8", "application/json;charset=utf-8", "application/json; charset=utf-8; boundary=x",
	"application/x-www-form-urlencoded", "application/x-www-form-urlencoded; charset=UTF-8", "application/x-www-form-urlencoded;charset=UTF-8",
	// parameters of any shape are ignored: unquoted URIs, bare words, empty values, repeats, quoted strings, trailing ';'
	"application/json; charset=utf-8; profile=https://example.com/schemas/user.json", "application/json; utf-8", "application/json; charset=", "application/json;",
	"application/json; charset=\"utf-8\"", "application/json; charset=utf-8; charset=latin1", "application/json;;", "application/json; =x",
	"application/x-www-form-urlencoded;", // (for forms net/http itself reads the header and rejects malformed parameters: "as net/http defines it")
	"text/plain", "multipart/form-data; boundary=x", "application/jsonx", "application/x-json", "text/json", "application/json-patch+json"}
var c15Bodies = []string{
	`{"name":"J-name","tags":["J1","J2"],"opt":"J-opt","list":["JL"]}`, `{"name":"J-name","tags":"J1"}`, `{}`, `{"name":null,"tags":[]}`,
	`[1,2]`, `7`, `"str"`, `null`, `true`, `{"name":"J-na`, `{"name":}`, ``, ` `,
	`name=B-name&tags%5B%5D=B1&tags%5B%5D=B2&opt=B-opt&list=BL1&list=BL2`, `name=B-name&tags%5B%5D=B1`, `name=B-name`, `tags%5B%5D=B1&list=BL`,
	`name=%zz`, `name=B&x=%`, `name=B;tags%5B%5D=B1`, `name=&tags%5B%5D=`,
	c15Multipart,
}
var c15Queries = []string{"", "name=Q-name&tags%5B%5D=Q1", "name=Q-name&tags%5B%5D=Q1&tags%5B%5D=Q2&opt=Q-opt&list=QL1&list=QL2", "name=Q-name", "name=Q1&name=Q2&tags%5B%5D=Q1",
	"tags%5B%5D=Q1&list=QL", "name=Q-name&tags=Q-not-bracketed", "name=%zz&tags%5B%5D=Q1", "name=+&tags%5B%5D=Q1", "opt=Q-opt"}

func TestC15(t *testing.T) {
	h := hh.Start(t, "C15",
		"exhaustive product: method {GET, HEAD, POST, PUT, PATCH, DELETE, OPTIONS, FOO} x Content-Type (absent, JSON / urlencoded with and without parameters in both documented spellings, other and look-alike media types) x body (valid JSON objects, {}, null-valued fields, non-objects, truncated, empty, valid forms, forms with bad escapes / semicolons / empty values; JSON documents padded with JSON white space and look-alikes before, after and inside) x query string (absent, single, repeated, []-suffixed, missing [] key, bad escape), also after a middleware called r.ParseForm / r.FormValue (incl. well-formed multipart bodies); every source carries distinct sentinel values and recording coercers report the raw value handed to each field; plus random requests from the same grammar; non-trivial = a body method with a Content-Type, an undecodable body, or a list-valued parameter; every enumerated request is distinct",
		"expected source from the statement's dispatch table (net/http decides which methods read a form body); undecodable body => exactly one invalid_json / invalid_form issue at $root, no schema callback ran, destination equal to its sentinel pre-fill; {} => every field absent (required fields report required); repeated or []-suffixed => list, single => string, missing => absent",
		"Content-Type spellings outside <media-type>[; parameter=value] (upper case, space before ';') and JSON followed by trailing data are outside the documented domain (skipped)")
	defer h.Finish()
	hh.Enumerate(h, "dispatch-product", func(yield func(c15Case)) {
		for _, m := range c15Methods {
			for _, ct := range c15CTypes {
				for _, b := range c15Bodies {
					for _, q := range c15Queries {
						yield(c15Case{Method: m, CType: ct, Body: b, Query: q})
					}
				}
			}
		}
	}, propC15)
	// the same dispatch after a middleware has already looked at the request (r.ParseForm / r.FormValue): the source is
	// still chosen by method and Content-Type; a multipart body is not one of the three sources
	hh.Enumerate(h, "dispatch-product-preparsed", func(yield func(c15Case)) {
		for _, pre := range []string{"parseform", "formvalue"} {
			for _, m := range c15Methods {
				for _, ct := range []string{"", "application/json", "application/x-www-form-urlencoded", "multipart/form-data; boundary=x", "text/plain"} {
					for _, b := range []string{c15Multipart, c15Bodies[0], c15Bodies[13], `{}`, ``, `name=%zz`} {
						for _, q := range []string{"", "name=Q-name&tags%5B%5D=Q1", "opt=Q-opt&list=QL1&list=QL2"} {
							yield(c15Case{Method: m, CType: ct, Body: b, Query: q, Pre: pre})
						}
					}
				}
			}
		}
	}, propC15)
	// bodies whose length net/http does not know in advance (streaming clients, chunked transfer)
	hh.Enumerate(h, "dispatch-product-unknown-length", func(yield func(c15Case)) {
		for _, ln := range []string{"unknown", "chunked"} {
			for _, m := range c15Methods {
				for _, ct := range []string{"application/json", "application/json; charset=utf-8", "application/x-www-form-urlencoded", "text/plain"} {
					for _, b := range []string{c15Bodies[0], c15Bodies[13], `{}`, ``, `{"name":"J-na`, `name=%zz`} {
						for _, q := range []string{"", "name=Q-name&tags%5B%5D=Q1"} {
							yield(c15Case{Method: m, CType: ct, Body: b, Query: q, Len: ln})
						}
					}
				}
			}
		}
	}, propC15)
	// JSON documents as other producers write them: insignificant white space (space, tab, LF, CR) before, after and
	// inside the document; characters that are not JSON white space make the document undecodable
	hh.Enumerate(h, "dispatch-product-json-whitespace", func(yield func(c15Case)) {
		pads := []string{" ", "\t", "\n", "\r", "\r\n", "\n\r\t ", "\r\r", "\ufeff", "\v", "\f", "\u00a0", "\x00"}
		docs := []string{c15Bodies[0], `{}`, `{"name":null,"tags":[]}`, `[1,2]`, `null`, `{"name":"J-na`, ``}
		for _, m := range c15Methods {
			for _, ct := range []string{"", "application/json", "application/json; charset=utf-8"} {
				for _, d := range docs {
					for _, pad := range pads {
						yield(c15Case{Method: m, CType: ct, Body: pad + d})
						yield(c15Case{Method: m, CType: ct, Body: d + pad})
						yield(c15Case{Method: m, CType: ct, Body: pad + d + pad, Query: "name=Q-name&tags%5B%5D=Q1"})
						if len(d) > 2 {
							yield(c15Case{Method: m, CType: ct, Body: d[:1] + pad + d[1:len(d)-1] + pad + d[len(d)-1:]})
						}
					}
				}
			}
		}
	}, propC15)
	hh.Enumerate(h, "dispatch-product-no-fields", func(yield func(c15Case)) {
		for _, m := range c15Methods {
			for _, ct := range []string{"", "application/json", "application/x-www-form-urlencoded", "text/plain"} {
				for _, b := range c15Bodies {
					for _, q := range []string{"", "name=Q-name", "name=%zz"} {
						yield(c15Case{Method: m, CType: ct, Body: b, Query: q, Empty: true})
					}
				}
			}
		}
	}, propC15)
	hh.Enumerate(h, "dispatch-product-pointer-root", func(yield func(c15Case)) {
		for _, m := range c15Methods {
			for _, ct := range []string{"", "application/json", "application/json; charset=utf-8", "application/x-www-form-urlencoded", "text/plain"} {
				for _, b := range c15Bodies {
					for _, q := range []string{"", "name=Q-name&tags%5B%5D=Q1", "opt=Q-opt"} {
						yield(c15Case{Method: m, CType: ct, Body: b, Query: q, Ptr: true})
						yield(c15Case{Method: m, CType: ct, Body: b, Query: q, Ptr: true, NotNil: true})
					}
				}
			}
		}
	}, propC15)
	frag := []string{"name", "tags%5B%5D", "tags[]", "opt", "list", "=", "&", "Q1", "B2", "%zz", "%20", "+", ";", "x"}
	jfrag := []string{"{", "}", `"name"`, `"tags"`, ":", ",", `"J"`, "[", "]", "null", "1", " ", `"opt"`, `"list"`, "\r\n", "\t", "\n", "\r"}
	hh.Sub(h, "random-requests", h.N(15000, 100000), func(rt *rapid.T) c15Case {
		c := c15Case{Method: rapid.SampledFrom(c15Methods).Draw(rt, "m"), CType: rapid.SampledFrom(c15CTypes).Draw(rt, "ct"), Ptr: rapid.IntRange(0, 3).Draw(rt, "ptr") == 0}
		if c.Ptr {
			c.NotNil = rapid.Bool().Draw(rt, "notnil")
		}
		c.Len = rapid.SampledFrom([]string{"", "", "", "unknown", "chunked"}).Draw(rt, "len")
		c.Empty = !c.Ptr && rapid.IntRange(0, 7).Draw(rt, "nofields") == 0
		if rapid.IntRange(0, 3).Draw(rt, "pre") == 0 {
			c.Pre = rapid.SampledFrom([]string{"parseform", "formvalue"}).Draw(rt, "prek")
		}
		if c.CType == "application/json" && rapid.IntRange(0, 1).Draw(rt, "param") == 0 {
			c.CType += ";" + strings.Join(rapid.SliceOfN(rapid.SampledFrom([]string{" ", "charset", "=", "utf-8", ";", "\"", "q", "/", ":", "x", ",", "*"}), 0, 6).Draw(rt, "pf"), "")
		}
		if rapid.Bool().Draw(rt, "jsonbody") {
			if rapid.Bool().Draw(rt, "fixed") {
				c.Body = rapid.SampledFrom(c15Bodies).Draw(rt, "b")
			} else {
				c.Body = strings.Join(rapid.SliceOfN(rapid.SampledFrom(jfrag), 0, 12).Draw(rt, "jf"), "")
			}
		} else {
			c.Body = strings.Join(rapid.SliceOfN(rapid.SampledFrom(frag), 0, 10).Draw(rt, "bf"), "")
		}
		if rapid.Bool().Draw(rt, "fq") {
			c.Query = rapid.SampledFrom(c15Queries).Draw(rt, "q")
		} else {
			c.Query = strings.Join(rapid.SliceOfN(rapid.SampledFrom(frag), 0, 10).Draw(rt, "qf"), "")
		}
		return c
	}, propC15)
}
