package props

import (
	"fmt"
	"reflect"
	"strings"

	z "github.com/Oudwins/zog"
	"github.com/Oudwins/zog/conf"

	"verifharness/hh"
)

// Callbacks of schemas over user-defined primitive types (StringSchema[T ~string], NumberSchema[T], BoolSchema[T ~bool]):
// a primitive TestFunc gets the value itself - a value of the node's own type T -, a PostTransform a *T.

type c12NamedCell struct {
	Type  string `json:"type"`  // nstring | nint | nfloat | nbool
	Place string `json:"place"` // root | field | elem
	Mode  string `json:"mode"`
}

type c12NamedDest struct {
	S nsT
	I niT
	F nfT
	B nbT
}

func c12NamedCells(yield func(c12NamedCell)) {
	for _, ty := range []string{"nstring", "nint", "nfloat", "nbool"} {
		for _, pl := range []string{"root", "field", "elem"} {
			for _, mode := range modes {
				yield(c12NamedCell{Type: ty, Place: pl, Mode: mode})
			}
		}
	}
}

func propC12Named(c c12NamedCell) (v hh.Verdict) {
	var seen []string
	test := func(val any, ctx z.Ctx) bool { seen = append(seen, "test:"+reflect.TypeOf(val).String()); return true }
	post := func(ptr any, ctx z.Ctx) error { seen = append(seen, "post:"+reflect.TypeOf(ptr).String()); return nil }
	var leaf z.ZogSchema
	var input any
	var key, want string
	switch c.Type {
	case "nstring":
		s := namedString()
		s.TestFunc(test).PostTransform(post)
		leaf, input, key, want = s, "abc", "S", "props.nsT"
	case "nint":
		s := &z.NumberSchema[niT]{}
		z.WithCoercer(func(x any) (any, error) {
			i, err := conf.DefaultCoercers.Int(x)
			if err != nil {
				return nil, err
			}
			return niT(i.(int)), nil
		})(s)
		s.TestFunc(test).PostTransform(post)
		leaf, input, key, want = s, 7, "I", "props.niT"
	case "nfloat":
		s := &z.NumberSchema[nfT]{}
		z.WithCoercer(func(x any) (any, error) {
			f, err := conf.DefaultCoercers.Float64(x)
			if err != nil {
				return nil, err
			}
			return nfT(f.(float64)), nil
		})(s)
		s.TestFunc(test).PostTransform(post)
		leaf, input, key, want = s, 2.5, "F", "props.nfT"
	case "nbool":
		s := &z.BoolSchema[nbT]{}
		z.WithCoercer(func(x any) (any, error) {
			b, err := conf.DefaultCoercers.Bool(x)
			if err != nil {
				return nil, err
			}
			return nbT(b.(bool)), nil
		})(s)
		s.TestFunc(test).PostTransform(post)
		leaf, input, key, want = s, true, "B", "props.nbT"
	}
	defer func() {
		if p := recover(); p != nil {
			v = hh.Fail("%s %s [%s]: panic: %v", c.Type, c.Place, c.Mode, p)
		}
	}()
	var issues any
	d := c12NamedDest{S: "abc", I: 7, F: 2.5, B: true}
	switch c.Place {
	case "root":
		switch s := leaf.(type) {
		case *z.StringSchema[nsT]:
			if c.Mode == "parse" {
				issues = s.Parse(input, &d.S)
			} else {
				issues = s.Validate(&d.S)
			}
		case *z.NumberSchema[niT]:
			if c.Mode == "parse" {
				issues = s.Parse(input, &d.I)
			} else {
				issues = s.Validate(&d.I)
			}
		case *z.NumberSchema[nfT]:
			if c.Mode == "parse" {
				issues = s.Parse(input, &d.F)
			} else {
				issues = s.Validate(&d.F)
			}
		case *z.BoolSchema[nbT]:
			if c.Mode == "parse" {
				issues = s.Parse(input, &d.B)
			} else {
				issues = s.Validate(&d.B)
			}
		}
	case "field":
		st := z.Struct(z.Schema{key: leaf})
		if c.Mode == "parse" {
			issues = st.Parse(map[string]any{key: input}, &d)
		} else {
			issues = st.Validate(&d)
		}
	case "elem":
		sl := z.Slice(leaf)
		switch c.Type {
		case "nstring":
			l := []nsT{"abc", "de"}
			if c.Mode == "parse" {
				l = nil
				issues = sl.Parse([]any{"abc", "de"}, &l)
			} else {
				issues = sl.Validate(&l)
			}
		case "nint":
			l := []niT{7, 8}
			if c.Mode == "parse" {
				l = nil
				issues = sl.Parse([]any{7, 8}, &l)
			} else {
				issues = sl.Validate(&l)
			}
		case "nfloat":
			l := []nfT{2.5, 3.5}
			if c.Mode == "parse" {
				l = nil
				issues = sl.Parse([]any{2.5, 3.5}, &l)
			} else {
				issues = sl.Validate(&l)
			}
		case "nbool":
			l := []nbT{true, true}
			if c.Mode == "parse" {
				l = nil
				issues = sl.Parse([]any{true, true}, &l)
			} else {
				issues = sl.Validate(&l)
			}
		}
	}
	if s := fmt.Sprint(issues); s != "[]" && s != "map[]" {
		return hh.Fail("%s %s [%s]: unexpected issues %s", c.Type, c.Place, c.Mode, s)
	}
	visits := 1
	if c.Place == "elem" {
		visits = 2
	}
	var wantSeen []string
	for i := 0; i < visits; i++ {
		wantSeen = append(wantSeen, "test:"+want, "post:*"+want)
	}
	if strings.Join(seen, " ") != strings.Join(wantSeen, " ") {
		return hh.Fail("%s %s [%s]: callbacks received %v, expected %v (a TestFunc gets the value itself, of the node's own type; a PostTransform a pointer to it)", c.Type, c.Place, c.Mode, seen, wantSeen)
	}
	return hh.Verdict{Nontrivial: true, Classes: []string{"type:" + c.Type, "place:" + c.Place}}
}
