package props

import (
	"fmt"
	"testing"

	z "github.com/Oudwins/zog"

	"github.com/Oudwins/zog/conf"
	"pgregory.net/rapid"

	"verifharness/hh"
	"verifharness/model"
)

// C03: on success the destination holds the documented coercion of the input.

type c03Case struct {
	Case   model.Case `json:"case"`
	Global []string   `json:"global,omitempty"` // base kinds with a global coercer override
}

func installGlobals(kinds []string) func() {
	saved := conf.Coercers
	for _, k := range kinds {
		f := model.GlobalCoercer(k)
		switch k {
		case model.KString:
			conf.Coercers.String = f
		case model.KInt:
			conf.Coercers.Int = f
		case model.KFloat64:
			conf.Coercers.Float64 = f
		case model.KBool:
			conf.Coercers.Bool = f
		case model.KTime:
			conf.Coercers.Time = f
		case model.KSlice:
			conf.Coercers.Slice = f
		}
	}
	return func() { conf.Coercers = saved }
}

func propC03(cc c03Case) hh.Verdict {
	restore := installGlobals(cc.Global)
	defer restore()
	c := cc.Case
	out, bad, skip := conform(c, 2, true, true, false)
	if skip != "" {
		return hh.Verdict{Skip: skip}
	}
	if bad != "" {
		return hh.Fail("%s", bad)
	}
	v := hh.Verdict{Classes: shapeClasses(c.Root)}
	if len(out.spec.Issues) > 0 {
		v.Classes = append(v.Classes, "result:issues")
		return v
	}
	v.Classes = append(v.Classes, "result:nil")
	// non-trivial: success with a leaf whose input type differs from its destination type,
	// a non-default coercer/layout, or an absent optional leaf whose sentinel had to survive
	alt, opt := false, false
	c.Root.Walk(func(n *model.Node) {
		if n.Coercer != "" || n.Layout != "" {
			opt = true
		}
	})
	var scan func(v model.Val)
	scan = func(v model.Val) {
		switch v.T {
		case "string", "int", "int32", "int64", "float32", "float64", "bool", "nil", "strlist", "intlist":
			alt = true // presence of scalar representations; refined by class labels below
		}
		for _, e := range v.L {
			scan(e)
		}
		for _, kv := range v.M {
			scan(kv.V)
		}
	}
	scan(c.Input)
	if opt {
		v.Classes = append(v.Classes, "custom-coercer-or-layout")
	}
	if len(cc.Global) > 0 {
		v.Classes = append(v.Classes, "global-override")
	}
	v.Nontrivial = alt || opt
	return v
}

// ---- "any value to its %v string": every value of the wild registry into a String schema ----

type c03Any struct {
	Wild  string `json:"wild"`
	Place string `json:"place"` // top | field | elem
}

func propC03Any(c c03Any) hh.Verdict {
	w := model.WildRegistry[c.Wild]()
	if w == nil {
		return hh.Verdict{Skip: "nil-is-absent"}
	}
	if s, ok := w.(string); ok && model.IsParseAbsent(s) {
		return hh.Verdict{Skip: "absent-looking-string"}
	}
	want := fmt.Sprintf("%v", w)
	var got string
	var n int
	var pan any
	func() {
		defer func() { pan = recover() }()
		switch c.Place {
		case "top":
			n = len(z.String().Parse(w, &got))
		case "field":
			var d struct{ F string }
			n = len(z.Struct(z.Schema{"f": z.String()}).Parse(map[string]any{"f": w}, &d))
			got = d.F
		case "elem":
			var d []string
			n = len(z.Slice(z.String()).Parse([]any{"x", w}, &d))
			if len(d) == 2 {
				got = d[1]
			}
		}
	}()
	if pan != nil {
		return hh.Fail("%s/%s: panic %v", c.Wild, c.Place, pan)
	}
	if n != 0 {
		return hh.Fail("%s/%s: a String schema must accept any value (documented: any value -> its %%v string), got %d issues", c.Wild, c.Place, n)
	}
	if got != want {
		return hh.Fail("%s/%s: destination %q, the %%v string is %q", c.Wild, c.Place, trunc(got), trunc(want))
	}
	return hh.Verdict{Nontrivial: true, Classes: []string{"place:" + c.Place}}
}

func trunc(s string) string {
	if len(s) > 80 {
		return s[:80] + "..."
	}
	return s
}

func TestC03(t *testing.T) {
	h := hh.Start(t, "C03",
		"cases = generated schemas with inputs rendered in every documented equivalent representation (typed, decimal strings, on/off and ParseBool forms, RFC3339 or layout strings, unix seconds, float->int truncation, scalar for slice, typed slices), WithCoercer / Time.Format options and global conf.Coercers overrides; destinations pre-filled with sentinels incl. fields the schema does not name; non-trivial = successful parse whose input contains scalar representations to coerce or a non-default coercer/layout; distinct = FNV-1a of the case JSON",
		"on success the whole destination must equal the specification's destination (documented coercion table applied leaf by leaf, sentinels intact for absent optional leaves and unnamed fields, pointers allocated only when present, slice length and order as the input); documented conversions must succeed",
		"numeric out-of-range inputs are C18's subject and are skipped here; representations the documentation is silent on are skipped (counted)")
	defer h.Finish()
	cfg := model.DefaultCfg("parse")
	cfg.PPost, cfg.PJunk, cfg.PCatch = 0.05, 0, 0.05
	cfg.PVary, cfg.PAbsent, cfg.PTestSat, cfg.PClean, cfg.PLight = 0.15, 0.12, 0.97, 0.3, 0.4
	cfg.PCoercer, cfg.PLayout = 0.12, 0.5
	if h.Thorough() {
		cfg.MaxDepth, cfg.MaxFields, cfg.MaxElems = 4, 6, 6
	}
	hh.Sub(h, "coercion", h.N(30000, 150000), func(rt *rapid.T) c03Case { return c03Case{Case: model.GenCase(rt, cfg)} }, propC03)
	hh.Enumerate(h, "any-value-to-string", func(yield func(c03Any)) {
		for _, w := range model.WildNames() {
			for _, p := range []string{"top", "field", "elem"} {
				yield(c03Any{Wild: w, Place: p})
			}
		}
	}, propC03Any)
	gcfg := cfg
	gcfg.PCoercer = 0.05
	bases := []string{model.KString, model.KInt, model.KFloat64, model.KBool, model.KTime, model.KSlice}
	hh.Sub(h, "global-override", h.N(8000, 40000), func(rt *rapid.T) c03Case {
		g := gcfg
		g.GlobalKinds = rapid.SliceOfNDistinct(rapid.SampledFrom(bases), 1, 3, rapid.ID[string]).Draw(rt, "globals")
		return c03Case{Case: model.GenCase(rt, g), Global: g.GlobalKinds}
	}, propC03)
}
