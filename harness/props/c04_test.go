package props

import (
	"fmt"
	"testing"
	"time"

	"pgregory.net/rapid"

	"verifharness/hh"
	"verifharness/model"
)

// C04: Required, Optional and Default decide what an absent value means.
// The decision table is enumerated completely; thorough adds random
// compositions of placements.

type c04Cell struct {
	Label string     `json:"label"`
	Case  model.Case `json:"case"`
}

var c04Valid = map[string]model.Val{
	model.KString: model.Str("valid"), model.KInt: model.Int(7), model.KInt32: model.Int32(7), model.KInt64: model.Int64(7),
	model.KFloat32: model.F32(7.5), model.KFloat64: model.F64(7.5), model.KBool: model.Bool(true),
	model.KTime: model.Time(time.Date(2024, 3, 10, 12, 0, 0, 0, time.UTC)),
}
var c04Other = map[string]model.Val{
	model.KString: model.Str("dflt"), model.KInt: model.Int(9), model.KInt32: model.Int32(9), model.KInt64: model.Int64(9),
	model.KFloat32: model.F32(9.5), model.KFloat64: model.F64(9.5), model.KBool: model.Bool(true),
	model.KTime: model.Time(time.Date(2025, 1, 2, 3, 4, 5, 0, time.UTC)),
}

func c04Zero(kind string) model.Val {
	switch kind {
	case model.KString:
		return model.Str("")
	case model.KBool:
		return model.Bool(false)
	case model.KTime:
		return model.Time(time.Time{})
	case model.KFloat32:
		return model.F32(0)
	case model.KFloat64:
		return model.F64(0)
	}
	return model.Val{T: kind, S: "0"}
}

var ranTest = model.TestSpec{Name: "func", Str: "pass", Opts: model.Opts{Code: "ran"}}

// c04Leaves: every node kind with every modifier combination.
func c04Leaves() map[string]func() *model.Node {
	out := map[string]func() *model.Node{}
	prims := []string{model.KString, model.KInt, model.KInt32, model.KInt64, model.KFloat32, model.KFloat64, model.KBool, model.KTime}
	type mod struct {
		name            string
		req, def, catch bool
	}
	mods := []mod{{"none", false, false, false}, {"required", true, false, false}, {"default", false, true, false}, {"required+default", true, true, false},
		{"catch", false, false, true}, {"required+catch", true, false, true}, {"default+catch", false, true, true}, {"required+default+catch", true, true, true}}
	for _, k := range prims {
		for _, m := range mods {
			k, m := k, m
			out[k+"/"+m.name] = func() *model.Node {
				n := &model.Node{Kind: k, Req: m.req, Tests: []model.TestSpec{ranTest}}
				if m.def {
					d := c04Other[k]
					n.Def = &d
				}
				if m.catch {
					c := c04Other[k]
					n.Catch = &c
				}
				return n
			}
		}
	}
	for _, m := range mods[:4] {
		m := m
		out["slice/"+m.name] = func() *model.Node {
			n := &model.Node{Kind: model.KSlice, Req: m.req, Tests: []model.TestSpec{ranTest}, Elem: &model.Node{Kind: model.KString, Tests: []model.TestSpec{ranTest}}}
			if m.def {
				d := model.List(model.Str("d1"), model.Str("d2"))
				n.Def = &d
			}
			return n
		}
	}
	for _, nn := range []bool{false, true} {
		nn := nn
		name := map[bool]string{false: "none", true: "notnil"}[nn]
		out["ptr-string/"+name] = func() *model.Node {
			return &model.Node{Kind: model.KPtr, Req: nn, Elem: &model.Node{Kind: model.KString, Req: true, Tests: []model.TestSpec{ranTest}}}
		}
		out["ptr-struct/"+name] = func() *model.Node {
			return &model.Node{Kind: model.KPtr, Req: nn, Elem: &model.Node{Kind: model.KStruct, Tests: []model.TestSpec{ranTest},
				Fields: []model.Field{{Key: "x", Node: &model.Node{Kind: model.KString, Req: true, Tests: []model.TestSpec{ranTest}}}}}}
		}
		out["ptr-default/"+name] = func() *model.Node {
			d := model.Str("dflt")
			return &model.Node{Kind: model.KPtr, Req: nn, Elem: &model.Node{Kind: model.KString, Def: &d, Tests: []model.TestSpec{ranTest}}}
		}
	}
	out["struct/field-required"] = func() *model.Node {
		return &model.Node{Kind: model.KStruct, Tests: []model.TestSpec{ranTest},
			Fields: []model.Field{{Key: "x", Node: &model.Node{Kind: model.KString, Req: true, Tests: []model.TestSpec{ranTest}}}}}
	}
	out["struct/field-optional"] = func() *model.Node {
		return &model.Node{Kind: model.KStruct, Tests: []model.TestSpec{ranTest},
			Fields: []model.Field{{Key: "x", Node: &model.Node{Kind: model.KInt, Tests: []model.TestSpec{ranTest}}}}}
	}
	out["custom/string"] = func() *model.Node {
		return &model.Node{Kind: model.KCustom, CustomT: "string", CustomFn: "pass", Tests: []model.TestSpec{{Name: "func", Str: "pass", Opts: model.Opts{Code: "custom_fail"}}}}
	}
	return out
}

type c04Input struct {
	name    string
	val     model.Val
	missing bool
}

func c04ParseInputs(leaf *model.Node) []c04Input {
	in := []c04Input{
		{"nil", model.Nil(), false}, {"missing-key", model.Nil(), true},
		{"empty-string", model.Str(""), false}, {"space", model.Str(" "), false}, {"tabs-newline", model.Str("\t\n "), false},
		{"nbsp", model.Str(" "), false}, {"ideographic-space", model.Str("　"), false},
		{"int0", model.Int(0), false}, {"float0", model.F64(0), false}, {"false", model.Bool(false), false},
		{"zero-time", model.Time(time.Time{}), false}, {"string-0", model.Str("0"), false}, {"string-false", model.Str("false"), false},
		{"empty-list", model.List(), false}, {"nil-strlist", model.Val{T: "strlist"}, false},
		// strings that spell "nothing" in some notation are not blank: they are present values
		{"zero-time-string", model.Str("0001-01-01T00:00:00Z"), false}, {"string-null", model.Str("null"), false}, {"string-nil", model.Str("<nil>"), false},
		{"string-0.0", model.Str("0.0"), false}, {"string-minus-0", model.Str("-0"), false}, {"string-brackets", model.Str("[]"), false}, {"string-off", model.Str("off"), false},
	}
	// a valid non-zero value in the node's natural representation
	switch leaf.Kind {
	case model.KSlice:
		in = append(in, c04Input{"valid", model.List(model.Str("a"), model.Str("b")), false}, c04Input{"list-with-absent-elem", model.List(model.Nil(), model.Str("b"), model.Str(" ")), false})
	case model.KStruct:
		in = append(in, c04Input{"valid", model.Map(model.KV{K: "x", V: model.Str("7")}), false}, c04Input{"empty-map", model.Map(), false})
	case model.KPtr:
		if leaf.Elem.Kind == model.KStruct {
			in = append(in, c04Input{"valid", model.Map(model.KV{K: "x", V: model.Str("v")}), false}, c04Input{"empty-map", model.Map(), false})
		} else {
			in = append(in, c04Input{"valid", model.Str("v"), false})
		}
	case model.KCustom:
		in = append(in, c04Input{"valid", model.Str("v"), false})
	default:
		in = append(in, c04Input{"valid", c04Valid[leaf.Kind], false})
	}
	return in
}

func c04ValidateInputs(leaf *model.Node) []c04Input {
	switch leaf.Kind {
	case model.KSlice:
		return []c04Input{{"nil-slice", model.Nil(), false}, {"empty-slice", model.List(), false}, {"valid", model.List(model.Str("a"), model.Str("b")), false},
			{"slice-with-zero-elem", model.List(model.Str(""), model.Str("b")), false}}
	case model.KStruct:
		return []c04Input{{"zero-struct", model.Map(), false}, {"valid", model.Map(model.KV{K: "x", V: model.Val{T: leaf.Fields[0].Node.Kind, S: "7"}}), false}}
	case model.KPtr:
		if leaf.Elem.Kind == model.KStruct {
			return []c04Input{{"nil-pointer", model.Nil(), false}, {"pointer-to-zero", model.Map(), false}, {"valid", model.Map(model.KV{K: "x", V: model.Str("v")}), false}}
		}
		return []c04Input{{"nil-pointer", model.Nil(), false}, {"pointer-to-zero", model.Str(""), false}, {"valid", model.Str("v"), false}}
	case model.KCustom:
		return []c04Input{{"zero", model.Str(""), false}, {"valid", model.Str("v"), false}}
	}
	in := []c04Input{{"zero", c04Zero(leaf.Kind), false}, {"valid", c04Valid[leaf.Kind], false}}
	switch leaf.Kind {
	case model.KString:
		// white-space-only strings are absent in Parse but NOT in Validate (only the Go zero value is)
		in = append(in, c04Input{"space", model.Str(" "), false}, c04Input{"tabs-newline", model.Str("\t\n "), false}, c04Input{"nbsp", model.Str("\u00a0"), false})
	case model.KTime:
		in = append(in, c04Input{"unix-epoch", model.Time(time.Unix(0, 0).UTC()), false}) // not the zero time
	case model.KFloat32, model.KFloat64:
		in = append(in, c04Input{"tiny", model.Val{T: leaf.Kind, S: "1e-40"}, false})
	}
	return in
}

// c04Place wraps the leaf and its input in one of the placements.
func c04Place(placement string, leaf *model.Node, in c04Input, mode string) (*model.Node, model.Val, bool) {
	sib := func() *model.Node {
		return &model.Node{Kind: model.KString, Req: true, Tests: []model.TestSpec{ranTest}}
	}
	entry := func(k string) []model.KV {
		if in.missing {
			return nil
		}
		return []model.KV{{K: k, V: in.val}}
	}
	// in Validate a pointer-to-zero needs a non-nil pointer: SetFromVal allocates for any non-nil Val
	switch placement {
	case "top":
		if in.missing {
			return nil, model.Val{}, false
		}
		return leaf, in.val, true
	case "field":
		root := &model.Node{Kind: model.KStruct, Fields: []model.Field{{Key: "a", Node: leaf}, {Key: "b", Node: sib()}}}
		return root, model.Val{T: "map", M: append(entry("a"), model.KV{K: "b", V: model.Str("ok")})}, true
	case "elem":
		if in.missing {
			return nil, model.Val{}, false
		}
		root := &model.Node{Kind: model.KSlice, Elem: leaf}
		return root, model.List(in.val, in.val), true
	case "ptr":
		if in.missing || leaf.Kind == model.KPtr {
			return nil, model.Val{}, false
		}
		if mode == "validate" && in.val.IsNil() {
			return nil, model.Val{}, false // a nil Val would mean a nil pointer, which is the ptr kind's own cell
		}
		return &model.Node{Kind: model.KPtr, Elem: leaf}, in.val, true
	case "struct-in-slice":
		root := &model.Node{Kind: model.KSlice, Elem: &model.Node{Kind: model.KStruct, Fields: []model.Field{{Key: "a", Node: leaf}}}}
		return root, model.List(model.Val{T: "map", M: entry("a")}, model.Val{T: "map", M: append(entry("a"), model.KV{K: "zz", V: model.Int(1)})}), true
	case "struct-behind-ptr":
		root := &model.Node{Kind: model.KStruct, Fields: []model.Field{{Key: "p", Node: &model.Node{Kind: model.KPtr, Elem: &model.Node{Kind: model.KStruct, Fields: []model.Field{{Key: "a", Node: leaf}, {Key: "b", Node: sib()}}}}}}}
		return root, model.Map(model.KV{K: "p", V: model.Val{T: "map", M: append(entry("a"), model.KV{K: "b", V: model.Str("ok")})}}), true
	}
	panic(placement)
}

var c04Placements = []string{"top", "field", "elem", "ptr", "struct-in-slice", "struct-behind-ptr"}

func c04Cells(yield func(c04Cell)) {
	leaves := c04Leaves()
	for _, lname := range model.SortedKeys(leaves) {
		for _, mode := range []string{"parse", "validate"} {
			probe := leaves[lname]()
			inputs := c04ParseInputs(probe)
			if mode == "validate" {
				inputs = c04ValidateInputs(probe)
			}
			for _, in := range inputs {
				for _, pl := range c04Placements {
					leaf := leaves[lname]()
					root, val, ok := c04Place(pl, leaf, in, mode)
					if !ok {
						continue
					}
					root.Number()
					yield(c04Cell{Label: fmt.Sprintf("%s|%s|%s|%s", lname, mode, in.name, pl), Case: model.Case{Root: root, Input: val, Exec: model.Exec{Mode: mode}}})
				}
			}
		}
	}
}

func propC04(cell c04Cell) hh.Verdict {
	out, bad, skip := conform(cell.Case, 2, true, true, true)
	if skip != "" {
		return hh.Verdict{Skip: skip}
	}
	if bad != "" {
		return hh.Fail("cell %s: %s", cell.Label, bad)
	}
	_ = out
	v := hh.Verdict{Nontrivial: true, Classes: []string{"mode:" + cell.Case.Exec.Mode}}
	return v
}

func TestC04(t *testing.T) {
	h := hh.Start(t, "C04",
		"exhaustive decision table: node kind x modifier combination (required/default/catch/notnil) x input class (nil, missing key, empty, white-space forms incl. U+00A0 and U+3000, 0, 0.0, false, zero time, \"0\", \"false\", \"null\", \"<nil>\", \"0.0\", \"-0\", \"[]\", \"off\", the zero time as a string, empty and nil slices, empty map, valid) x mode x placement (top, struct field, slice element, behind pointer, struct in slice, struct behind pointer); every enumerated cell is non-trivial and distinct by construction; random sub-checks: generated schemas with absence-heavy inputs; the same records through every front end (Go map, zjson, zhttp JSON / form / query incl. []-suffixed parameters, zenv) where a missing leaf is a missing key, parameter or variable",
		"observed per cell: required/not_nil issues, whole destination against sentinels (written or untouched), and how often each node's recorder test ran; expectation from the executable specification of the statement's table",
		"cells whose coercion the documentation does not determine (e.g. float64 0 into Bool) are skipped and counted")
	defer h.Finish()
	hh.Enumerate(h, "table", c04Cells, propC04)
	// random compositions: absence-heavy inputs over generated schemas
	for _, mode := range []string{"parse", "validate"} {
		cfg := model.DefaultCfg(mode)
		cfg.PPost, cfg.POpts = 0, 0
		cfg.PAbsent, cfg.PVary, cfg.PJunk, cfg.PDefault, cfg.PReq = 0.4, 0.3, 0, 0.3, 0.5
		cfg.PPre = 0.1 // Preprocess wrappers: what the function returns (a pointer to 0 is a present 0, a nil pointer is nothing) is what the absence rules see
		cfg.MaxDepth = h.N(3, 5)
		hh.Sub(h, "random-"+mode, h.N(10000, 60000), func(rt *rapid.T) model.Case { return model.GenCase(rt, cfg) }, func(c model.Case) hh.Verdict {
			_, bad, skip := conform(c, 2, true, true, true)
			if skip != "" {
				return hh.Verdict{Skip: skip}
			}
			if bad != "" {
				return hh.Fail("%s", bad)
			}
			abs := 0
			countAbsent(c.Input, &abs)
			return hh.Verdict{Nontrivial: abs > 0, Classes: []string{"mode:" + mode}}
		})
	}
	c04FrontEnds(h)
}

// c04FrontEnds: the same absence rules through every front end. A leaf the record lacks is a missing key / parameter /
// variable there (for []-suffixed parameters too), an empty or blank string is absent, and "0"/"false" are present.
func c04FrontEnds(h *hh.H) {
	cfg := model.DefaultCfg("parse")
	cfg.PPost, cfg.POpts, cfg.PCatch, cfg.PJunk = 0, 0, 0.05, 0
	cfg.PAbsent, cfg.PVary, cfg.PDefault, cfg.PReq, cfg.PTestSat, cfg.PZogTag = 0.45, 0.3, 0.3, 0.5, 0.9, 0.2
	hh.Sub(h, "front-ends", h.N(5000, 30000), func(rt *rapid.T) c14Case {
		// the open findings about source tags below depth 1 and nested structs in flat sources (C10, C14) are avoided by construction
		return genC14With(rt, cfg, true, true)
	}, func(c c14Case) hh.Verdict {
		if emptyObjectWithSourceTags(feCase{Root: c.Root, Logical: c.Logical, FE: model.FEJSON, Mode: "parse"}) {
			return hh.Verdict{Skip: "open-finding-C14-source-tag-on-empty-object"}
		}
		abs := 0
		countAbsent(c.Logical, &abs)
		missing := 0
		var walk func(n *model.Node, v model.Val)
		walk = func(n *model.Node, v model.Val) {
			if n.Kind == model.KPtr {
				walk(n.Elem, v)
				return
			}
			if n.Kind != model.KStruct || v.T != "map" {
				return
			}
			have := map[string]model.Val{}
			for _, kv := range v.M {
				have[kv.K] = kv.V
			}
			for _, f := range n.Fields {
				if fv, ok := have[f.Key]; ok {
					walk(f.Node, fv)
				} else {
					missing++
				}
			}
		}
		walk(c.Root, c.Logical)
		v := hh.Verdict{Nontrivial: abs+missing > 0}
		for _, fe := range model.AllFrontEnds {
			if len(c.FEs) > 0 && !contains(c.FEs, fe) {
				continue
			}
			spec, res, exp, text, skip := runFE(feCase{Root: c.Root, Logical: c.Logical, FE: fe, Mode: "parse"}, false)
			if skip != "" {
				continue
			}
			if res.Panic != nil {
				return hh.Fail("[%s] panic: %v (input %s)", fe, res.Panic, text)
			}
			if got := res.Norm(false); !model.EqualIssSpec(got, spec.Issues) {
				return hh.Fail("[%s] issues differ from the absence rules applied to the record: got %s want %s (input %s)", fe, fmtIss(got), fmtIss(spec.Issues), text)
			} else if len(got) == 0 && !spec.DestUnknown {
				if g, w := model.CanonJSON(res.Dest.Elem()), model.CanonJSON(exp); g != w {
					return hh.Fail("[%s] destination differs from the absence rules applied to the record: got %s want %s (input %s)", fe, g, w, text)
				}
			}
			v.Classes = append(v.Classes, "fe:"+fe)
		}
		return v
	})
}

func contains(l []string, s string) bool {
	for _, x := range l {
		if x == s {
			return true
		}
	}
	return false
}

func countAbsent(v model.Val, n *int) {
	if v.IsNil() || (v.T == "string" && len(v.S) < 4 && model.IsParseAbsent(v.S)) {
		*n++
	}
	for _, e := range v.L {
		countAbsent(e, n)
	}
	for _, kv := range v.M {
		countAbsent(kv.V, n)
	}
}
