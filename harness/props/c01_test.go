package props

import (
	"fmt"
	"reflect"
	"strconv"
	"strings"
	"testing"

	"pgregory.net/rapid"

	"verifharness/hh"
	"verifharness/model"
)

// C01: success means valid. The oracle re-evaluates the destination of a
// successful call with the reference predicates; it uses the absent rule and
// the predicates of the model but not the specification's issue computation.

type c01walk struct {
	mode     string
	problems []string
	tested   int // nodes carrying tests that were checked
	ptrs     int
	maxElems int
}

func (w *c01walk) bad(f string, a ...any) { w.problems = append(w.problems, fmt.Sprintf(f, a...)) }

func (w *c01walk) tests(n *model.Node, dst reflect.Value, where string) {
	if len(n.Tests) > 0 {
		w.tested++
	}
	for i, ts := range n.Tests {
		ok := model.EvalTest(n.Kind, ts, dst)
		if ts.Not {
			ok = !ok
		}
		if !ok {
			w.bad("%s: value %s violates test #%d (%s not=%v) although no issue was returned", where, model.CanonJSON(dst), i, ts.Name, ts.Not)
		}
	}
}

// walk checks node n whose destination is dst. For Parse, in is the input at
// this node; for Validate, orig is the value before the call.
func (w *c01walk) walk(n *model.Node, in any, orig, dst reflect.Value, where string) {
	parse := w.mode == "parse"
	switch {
	case model.IsPrimitive(n.Kind):
		absent := false
		if parse {
			absent = model.IsParseAbsent(in)
		} else {
			absent = orig.IsZero()
		}
		caught := n.Catch != nil && model.CanonJSON(dst) == model.CanonJSON(reflect.ValueOf(n.Catch.Go()).Convert(dst.Type()))
		if absent && n.Def == nil {
			if n.Req && !caught {
				w.bad("%s: required node had no value but no issue was returned", where)
			}
			return // absent optional (or caught): not tested
		}
		if caught {
			return // documented exemption: the node holds its catch value
		}
		w.tests(n, dst, where)
	case n.Kind == model.KSlice:
		absent := false
		if parse {
			absent = model.IsParseAbsent(in)
		} else {
			absent = orig.Len() == 0
		}
		if absent && n.Def == nil {
			if n.Req {
				w.bad("%s: required slice had no value but no issue was returned", where)
			}
			return
		}
		if dst.Len() > w.maxElems {
			w.maxElems = dst.Len()
		}
		var elems []any
		if parse && !absent {
			rv := reflect.ValueOf(in)
			if rv.Kind() == reflect.Slice {
				for i := 0; i < rv.Len(); i++ {
					elems = append(elems, rv.Index(i).Interface())
				}
			} else {
				elems = []any{in}
			}
		}
		for i := 0; i < dst.Len(); i++ {
			var ein any
			eorig := reflect.Value{}
			if parse {
				if absent { // default elements: present by construction
					ein = dst.Index(i).Interface()
				} else if i < len(elems) {
					ein = elems[i]
				} else {
					continue
				}
			} else if !absent && i < orig.Len() {
				eorig = orig.Index(i)
			} else {
				eorig = dst.Index(i)
			}
			w.walk(n.Elem, ein, eorig, dst.Index(i), fmt.Sprintf("%s[%d]", where, i))
		}
		w.tests(n, dst, where)
	case n.Kind == model.KStruct:
		for _, f := range n.Fields {
			var fin any
			forig := reflect.Value{}
			if parse {
				if get, ok := model.StructGetter(in); ok {
					key := f.Key
					if t, ok := f.Tags["zog"]; ok {
						key = t
					}
					fin = get(key)
				}
			} else {
				forig = orig.FieldByName(f.GoName())
			}
			w.walk(f.Node, fin, forig, dst.FieldByName(f.GoName()), where+"."+f.Key)
		}
		w.tests(n, dst, where)
	case n.Kind == model.KPtr:
		absent := false
		if parse {
			absent = model.IsParseAbsent(in)
		} else {
			absent = orig.IsNil()
		}
		if absent {
			if n.Req {
				w.bad("%s: NotNil pointer had no value but no issue was returned", where)
			}
			return
		}
		if dst.IsNil() {
			w.bad("%s: present pointer input left a nil destination", where)
			return
		}
		w.ptrs++
		eorig := reflect.Value{}
		if !parse {
			eorig = orig.Elem()
		}
		w.walk(n.Elem, in, eorig, dst.Elem(), where)
	case n.Kind == model.KPre:
		// the wrapped schema governs what the Preprocess function made of the value (a failing function or a
		// type mismatch is an issue: such executions never get here)
		if parse {
			if n.PreFn == "any" {
				w.walk(n.Elem, in, orig, dst, where)
				return
			}
			s, ok := in.(string)
			if !ok {
				return
			}
			switch n.PreFn {
			case "trim":
				w.walk(n.Elem, strings.TrimSpace(s), orig, dst, where)
			case "split":
				parts := []any{}
				for _, p := range strings.Split(s, ",") {
					parts = append(parts, p)
				}
				w.walk(n.Elem, parts, orig, dst, where)
			case "maybe":
				if !strings.Contains(s, "bad") {
					w.walk(n.Elem, s, orig, dst, where)
				}
			case "ptrnum":
				if v, err := strconv.Atoi(strings.TrimSpace(s)); err == nil {
					w.walk(n.Elem, v, orig, dst, where)
				} else {
					w.walk(n.Elem, nil, orig, dst, where)
				}
			case "ptr": // a nil pointer result is no value at all
				if strings.Contains(s, "none") {
					w.walk(n.Elem, nil, orig, dst, where)
				} else {
					w.walk(n.Elem, strings.TrimSpace(s), orig, dst, where)
				}
			}
			return
		}
		if orig.Kind() == reflect.String {
			switch n.PreFn {
			case "vtrim":
				w.walk(n.Elem, nil, reflect.ValueOf(strings.TrimSpace(orig.String())), dst, where)
			case "vmaybe":
				if !strings.Contains(orig.String(), "bad") {
					w.walk(n.Elem, nil, reflect.ValueOf(orig.String()+"+"), dst, where)
				}
			}
		}
	case n.Kind == model.KCustom:
		w.tested++
		if !model.EvalFunc(n.CustomFn, dst) {
			w.bad("%s: custom schema function rejects %s although no issue was returned", where, model.CanonJSON(dst))
		}
	}
}

func propC01(reps int) func(model.Case) hh.Verdict {
	return func(c model.Case) (v hh.Verdict) {
		defer func() {
			if p := recover(); p != nil {
				if _, ok := p.(model.Uncertain); ok {
					v = hh.Verdict{Skip: "uncertain-predicate"}
					return
				}
				panic(p)
			}
		}()
		c.Root.Number()
		env := &model.Env{}
		schema, typ := model.Build(c.Root, env)
		var in any
		if c.Exec.Mode == "parse" {
			in = c.Input.Go()
		}
		v.Classes = append(shapeClasses(c.Root), "mode:"+c.Exec.Mode)
		nils := 0
		var last *c01walk
		processPrelude()
		for r := 0; r < reps; r++ {
			dest := newDest(typ, c, false)
			orig := model.DeepCopy(dest.Elem())
			res := model.Run(schema, env, c.Exec, in, dest)
			if res.Panic != nil {
				return hh.Fail("panic: %v", res.Panic)
			}
			if !res.NoIssues() {
				continue
			}
			nils++
			w := &c01walk{mode: c.Exec.Mode}
			w.walk(c.Root, in, orig, dest.Elem(), "$")
			if len(w.problems) > 0 {
				return hh.Fail("success reported but (run %d): %v", r, w.problems)
			}
			last = w
		}
		if nils == 0 {
			v.Classes = append(v.Classes, "result:issues")
			return v
		}
		v.Classes = append(v.Classes, "result:nil")
		catch, fields := false, 0
		c.Root.Walk(func(n *model.Node) {
			if n.Catch != nil {
				catch = true
			}
			if len(n.Fields) > fields {
				fields = len(n.Fields)
			}
		})
		v.Nontrivial = last.tested >= 2 && (catch || fields >= 2 || last.maxElems >= 2 || last.ptrs > 0)
		return v
	}
}

func TestC01(t *testing.T) {
	h := hh.Start(t, "C01",
		"cases = (schema tree, input, mode) from the witness-driven generator biased towards valid inputs; non-trivial = the call returned no issues, >=2 checked nodes carry tests, and the case has a catching node, a struct with >=2 fields, a slice with >=2 elements or a non-nil pointer; distinct = FNV-1a of the case JSON",
		"one-directional oracle: only successful results are judged, by the reference predicates of model/preds.go and the documented absent rule",
		"no PostTransforms in these cases (they legitimately change values after the tests ran); Preprocess wrappers are looked through: the wrapped schema governs what the function returned (a nil pointer result is no value); every execution starts after a fixed process prelude (collected issues, a recovered panic in a nested user callback)")
	defer h.Finish()
	reps := h.N(3, 8)
	for _, mode := range []string{"parse", "validate"} {
		cfg := model.DefaultCfg(mode)
		cfg.PPost = 0
		cfg.PCatchVary = 0.4 // caught failures also in otherwise valid inputs: what a catch hides must stay hidden from the node's siblings only
		cfg.PPre = 0.06      // Preprocess wrappers: the wrapped schema's constraints hold for what the function returned
		cfg.PCatch, cfg.PVary, cfg.PAbsent, cfg.PJunk, cfg.PTestSat, cfg.PClean, cfg.PLight = 0.3, 0.2, 0.1, 0.04, 0.95, 0.45, 0.5
		if h.Thorough() {
			cfg.MaxDepth, cfg.MaxFields, cfg.MaxElems, cfg.ManyFields = 4, 6, 6, true
		}
		hh.Sub(h, mode, h.N(30000, 70000), func(rt *rapid.T) model.Case { return model.GenCase(rt, cfg) }, propC01(reps))
	}
}
