package props

import (
	"reflect"
	"testing"

	"pgregory.net/rapid"

	"verifharness/hh"
	"verifharness/model"
)

// C02: the issues returned are exactly the violations.
func propC02(reps int) func(model.Case) hh.Verdict {
	return func(c model.Case) hh.Verdict {
		c.Root.Number()
		env := &model.Env{}
		schema, typ := model.Build(c.Root, env)
		spec, _ := runSpec(c, newDest(typ, c, false))
		if spec.Unknown != "" {
			return hh.Verdict{Skip: "spec-undetermined"}
		}
		var in any
		if c.Exec.Mode == "parse" {
			in = c.Input.Go()
		}
		processPrelude() // the process has handled an invalid input and survived a panicking callback before
		for r := 0; r < reps; r++ {
			res := model.Run(schema, env, c.Exec, in, newDest(typ, c, false))
			if res.Panic != nil {
				return hh.Fail("panic: %v", res.Panic)
			}
			got := res.Norm(false)
			if !model.EqualIssSpec(got, spec.Issues) {
				return hh.Fail("issues differ (run %d): got %s want %s", r, fmtIss(got), fmtIss(spec.Issues))
			}
			if res.NoIssues() != (len(spec.Issues) == 0) {
				return hh.Fail("nil-ness: result nil=%v but %d violations expected", res.NoIssues(), len(spec.Issues))
			}
			// the result is the caller's: it lists exactly these violations also after the process went on with other
			// failing executions (list- and map-returning ones)
			processPrelude()
			if again := res.Norm(false); !model.EqualIss(got, again) {
				return hh.Fail("the returned issues changed while the caller held them and other executions ran (run %d): were %s, now %s", r, fmtIss(got), fmtIss(again))
			}
		}
		v := hh.Verdict{Classes: append(shapeClasses(c.Root), "mode:"+c.Exec.Mode)}
		paths := map[string]int{}
		abort := false
		for _, i := range spec.Issues {
			paths[i.Path]++
			if i.Code == "required" || i.Code == "coerce" || i.Code == "not_nil" {
				abort = true
			}
		}
		multi := false
		for _, k := range paths {
			if k >= 2 {
				multi = true
			}
		}
		switch {
		case len(spec.Issues) == 0:
			v.Classes = append(v.Classes, "issues:0")
		case len(spec.Issues) == 1:
			v.Classes = append(v.Classes, "issues:1")
		default:
			v.Classes = append(v.Classes, "issues:2+")
		}
		if spec.CaughtCount > 0 {
			v.Classes = append(v.Classes, "caught")
		}
		v.Nontrivial = (len(spec.Issues) >= 2 && len(paths) >= 2) || multi || (abort && len(spec.Issues) >= 1 && reflect.ValueOf(c.Root.Tests).Len()+countNodes(c.Root) > 1)
		return v
	}
}

func countNodes(n *model.Node) int {
	k := 0
	n.Walk(func(*model.Node) { k++ })
	return k
}

func TestC02(t *testing.T) {
	h := hh.Start(t, "C02",
		"cases = (schema tree, input, mode) drawn by the witness-driven generator; non-trivial = the specification expects >=2 issues at >=2 distinct paths, or >=2 issues at one path, or a required/coerce/not_nil abort inside a multi-node schema; distinct = FNV-1a of the case JSON",
		"issues compared as multisets of (path, code, type) against the executable specification (model/spec.go)",
		"PostTransforms in these cases never fail; cases whose coercion the documentation does not determine are skipped and counted; the code of a Preprocess issue and ptr as the type of a not_nil issue are not pinned; every execution starts after a fixed process prelude (collected issues, a recovered panic in a nested user callback)")
	defer h.Finish()
	reps := h.N(3, 8)
	for _, mode := range []string{"parse", "validate"} {
		cfg := model.DefaultCfg(mode)
		cfg.PVary, cfg.PAbsent, cfg.PJunk = 0.35, 0.15, 0.08
		cfg.PCoercer = 0.08 // custom coercers (their refusal is an un-coercible value like any other)
		cfg.PPre = 0.06     // Preprocess wrappers (Parse only): type mismatch / error => one issue, wrapped schema skipped
		if h.Thorough() {
			cfg.MaxDepth, cfg.MaxFields, cfg.MaxElems, cfg.ManyFields = 4, 6, 6, true
		}
		hh.Sub(h, mode, h.N(30000, 60000), func(rt *rapid.T) model.Case { return model.GenCase(rt, cfg) }, propC02(reps))
	}
}
