package props

import (
	"fmt"
	"net/http"
	"reflect"
	"sort"
	"strings"
	"testing"
	"time"

	z "github.com/Oudwins/zog"
	"github.com/Oudwins/zog/zhttp"
	"pgregory.net/rapid"

	"verifharness/hh"
	"verifharness/model"
)

// C19: executions never modify the schema or the input.

type c19Step struct {
	Mode  string    `json:"mode"`
	Input model.Val `json:"input"`          // parse: input value; validate: typed value
	Wrap  string    `json:"wrap,omitempty"` // parse: "" | ptr | ptrptr (the input is handed over behind pointers)
	// Collect: the caller hands the issues back through the Collect helpers after looking at them
	Collect string `json:"collect,omitempty"` // "" | each | all | sanitize
	// Rot: struct roots only: this execution's destination type declares the same fields rotated by Rot
	// (one schema value may serve several Go types; what it did for one must not change what it does for another)
	Rot int `json:"rot,omitempty"`
	// SameType: parse: the input is a Go value of the destination's own type, populated from Input (the typed record):
	// its pointers, slices and nested structs have exactly the types of the destination's
	SameType bool `json:"sameType,omitempty"`
	// Fmt: this execution passes WithIssueFormatter stamping this marker ("" = none): the options of one execution
	// are not kept by the schema
	Fmt string `json:"fmt,omitempty"`
}

type c19Case struct {
	Root  *model.Node `json:"root"`
	Steps []c19Step   `json:"steps"`
}

func snapshotOwned(env *model.Env) []string {
	out := make([]string, len(env.Owned))
	for i, v := range env.Owned {
		out[i] = model.CanonCapJSON(v) // incl. the spare capacity of slices: memory the schema owns although no element lives there
	}
	return out
}

// scribble overwrites everything reachable from a destination value.
func scribble(v reflect.Value) {
	switch v.Kind() {
	case reflect.String:
		v.SetString("scribbled")
	case reflect.Int, reflect.Int32, reflect.Int64:
		v.SetInt(-99)
	case reflect.Float32, reflect.Float64:
		v.SetFloat(-99.5)
	case reflect.Bool:
		v.SetBool(!v.Bool())
	case reflect.Pointer:
		if !v.IsNil() {
			scribble(v.Elem())
		}
	case reflect.Slice:
		for i := 0; i < v.Len(); i++ {
			scribble(v.Index(i))
		}
		if v.CanSet() && v.Len() < v.Cap() {
			// write into spare capacity too
			full := v.Slice(0, v.Cap())
			for i := v.Len(); i < full.Len(); i++ {
				scribble(full.Index(i))
			}
		}
	case reflect.Struct:
		if _, ok := v.Interface().(time.Time); ok {
			v.Set(reflect.ValueOf(time.Unix(1, 1)))
			return
		}
		for i := 0; i < v.NumField(); i++ {
			scribble(v.Field(i))
		}
	}
}

func hasDefCatchPost(n *model.Node) bool {
	f := false
	n.Walk(func(x *model.Node) {
		if x.Def != nil || x.Catch != nil || len(x.Posts) > 0 {
			f = true
		}
	})
	return f
}

func propC19(c c19Case) hh.Verdict {
	c.Root.Number()
	env := &model.Env{}
	schema, typ := model.Build(c.Root, env)
	owned0 := snapshotOwned(env)
	type firstRes struct{ issues, dest string }
	first := map[string]firstRes{}
	pure := !hasDefCatchPost(c.Root)
	risky := model.RiskyPosts(c.Root)
	defaultApplied, nestedInput, sameType := false, false, false
	for i, st := range c.Steps {
		cs := model.Case{Root: c.Root, Input: st.Input, Exec: model.Exec{Mode: st.Mode, Formatter: st.Fmt}}
		dest := newDest(model.RetaggedStruct(typ, nil, st.Rot), cs, false)
		var in any
		var inSnap string
		before := model.CanonJSON(dest.Elem())
		if st.Mode == "parse" {
			in = st.Input.Go()
			if st.SameType {
				src := reflect.New(dest.Type().Elem())
				model.SetFromVal(src.Elem(), st.Input)
				in = src.Elem().Interface()
				sameType = true
			}
			switch st.Wrap {
			case "ptr", "ptrptr":
				if in != nil {
					p := reflect.New(reflect.TypeOf(in))
					p.Elem().Set(reflect.ValueOf(in))
					in = p.Interface()
					if st.Wrap == "ptrptr" {
						pp := reflect.New(p.Type())
						pp.Elem().Set(p)
						in = pp.Interface()
					}
				}
			}
			inSnap = model.CanonCapJSON(reflect.ValueOf(in)) + " types=" + model.TypeTree(reflect.ValueOf(in))
			if len(st.Input.M) > 0 || len(st.Input.L) > 0 {
				for _, kv := range st.Input.M {
					if len(kv.V.M) > 0 || len(kv.V.L) > 0 {
						nestedInput = true
					}
				}
				for _, e := range st.Input.L {
					if len(e.M) > 0 || len(e.L) > 0 {
						nestedInput = true
					}
				}
			}
		}
		res := model.Run(schema, env, cs.Exec, in, dest)
		if res.Panic != nil {
			return hh.Fail("step %d: panic: %v", i, res.Panic)
		}
		if st.Mode == "parse" {
			if after := model.CanonCapJSON(reflect.ValueOf(in)) + " types=" + model.TypeTree(reflect.ValueOf(in)); after != inSnap {
				return hh.Fail("step %d: Parse modified its input data: before %s after %s", i, inSnap, after)
			}
		} else if pure {
			if after := model.CanonJSON(dest.Elem()); after != before {
				return hh.Fail("step %d: Validate changed the value although the schema has no Default, Catch or PostTransform: before %s after %s", i, before, after)
			}
		}
		if o := snapshotOwned(env); !reflect.DeepEqual(o, owned0) {
			return hh.Fail("step %d: the execution modified values owned by the schema: before %v after %v", i, owned0, o)
		}
		obs := firstRes{issues: fmtIss(res.Norm(st.Fmt != model.ValueTemplateFormatter))} // (messages that echo values may print addresses)
		if res.NoIssues() {
			// with issues, which PostTransforms ran depends on the visit order (documented global gating)
			obs.dest = model.CanonJSON(dest.Elem())
		}
		for _, is := range res.All() {
			if (is.Message == "FMT-1" || is.Message == "FMT-2") && is.Message != st.Fmt {
				return hh.Fail("step %d: issue %s at %q carries the message %q of ANOTHER execution's formatter (this execution's: %q)", i, is.Code, is.Path, is.Message, st.Fmt)
			}
		}
		key := st.Mode + "|" + st.Wrap + "|" + st.Fmt + "|" + model.JSON(st.Input)
		if st.SameType {
			// pointer-typed data reaches the coercers as pointers (%v of an address): the result is not a function of the record
		} else if !res.NoIssues() && risky {
			// a data-dependent test above a gated PostTransform: order-dependent by the documented gating
		} else if f, seen := first[key]; seen {
			if f != obs {
				return hh.Fail("step %d: the schema behaves differently on a later identical execution: first %v, now %v", i, f, obs)
			}
		} else {
			first[key] = obs
		}
		switch st.Collect {
		case "each":
			for _, is := range res.All() {
				z.Issues.Collect(is)
			}
		case "all":
			if res.IsMap {
				z.Issues.CollectMap(res.Map)
			} else {
				z.Issues.CollectList(res.List)
			}
		case "sanitize":
			if res.IsMap {
				z.Issues.SanitizeMapAndCollect(res.Map)
			} else {
				z.Issues.SanitizeListAndCollect(res.List)
			}
		}
		if o := snapshotOwned(env); !reflect.DeepEqual(o, owned0) {
			return hh.Fail("step %d: handing the issues back through the Collect helpers modified values owned by the schema: before %v after %v", i, owned0, o)
		}
		// the caller now owns the destination: whatever it does with it must not reach the schema
		usedDefault := false
		c.Root.Walk(func(n *model.Node) {
			if n.Kind == model.KSlice && n.Def != nil {
				usedDefault = true
			}
		})
		scribble(dest.Elem())
		if o := snapshotOwned(env); !reflect.DeepEqual(o, owned0) {
			return hh.Fail("step %d: writing to the returned destination changed values owned by the schema (shared memory): before %v after %v", i, owned0, o)
		}
		if usedDefault && i+1 < len(c.Steps) {
			defaultApplied = true
		}
	}
	v := hh.Verdict{Classes: append(shapeClasses(c.Root), fmt.Sprintf("steps:%d", len(c.Steps)))}
	if len(env.Owned) > 0 {
		v.Classes = append(v.Classes, "schema-owned-values")
	}
	if sameType {
		v.Classes = append(v.Classes, "input-of-destination-type")
	}
	v.Nontrivial = (defaultApplied && len(env.Owned) > 0) || nestedInput
	return v
}

func genC19(rt *rapid.T, cfg model.GenCfg) c19Case {
	g := model.NewGen(rt, cfg)
	root := g.GenNode(cfg.MaxDepth, true)
	exported := (root.Kind == model.KStruct || root.Kind == model.KSlice) && rapid.IntRange(0, 3).Draw(rt, "exported") == 0
	if exported {
		root.ExportKeys() // lets Go structs of the destination's own type serve as input data
	}
	root.Number()
	c := c19Case{Root: root}
	n := rapid.IntRange(2, 6).Draw(rt, "nsteps")
	for i := 0; i < n; i++ {
		if i > 0 && rapid.IntRange(0, 2).Draw(rt, "repeat") == 0 {
			rep := c.Steps[rapid.IntRange(0, i-1).Draw(rt, "which")]
			if root.Kind == model.KStruct && rapid.Bool().Draw(rt, "rerot") {
				rep.Rot = rapid.IntRange(0, 3).Draw(rt, "rot2") // the same execution into another destination type
			}
			if rapid.IntRange(0, 2).Draw(rt, "refmt") == 0 {
				rep.Fmt = rapid.SampledFrom([]string{"", "FMT-1", "FMT-2", model.ValueTemplateFormatter}).Draw(rt, "fmt2") // the same execution under another formatter
			}
			c.Steps = append(c.Steps, rep)
			continue
		}
		mode := rapid.SampledFrom([]string{"parse", "validate"}).Draw(rt, "mode")
		typed := g.GenTyped(root)
		st := c19Step{Mode: mode, Input: typed, Collect: rapid.SampledFrom([]string{"", "", "each", "all", "sanitize"}).Draw(rt, "collect"),
			Fmt: rapid.SampledFrom([]string{"", "", "", "FMT-1", "FMT-2", model.ValueTemplateFormatter}).Draw(rt, "fmt")}
		if root.Kind == model.KStruct && rapid.IntRange(0, 2).Draw(rt, "rotate") == 0 {
			st.Rot = rapid.IntRange(1, 3).Draw(rt, "rot")
		}
		if mode == "parse" && exported && rapid.Bool().Draw(rt, "sametype") {
			st.SameType = true
			if root.Kind == model.KStruct {
				st.Wrap = rapid.SampledFrom([]string{"", "", "ptr", "ptrptr"}).Draw(rt, "wrap")
			}
		} else if mode == "parse" {
			st.Input, _ = g.Render(root, typed, "root")
			if root.Kind == model.KStruct {
				st.Wrap = rapid.SampledFrom([]string{"", "", "ptr", "ptrptr"}).Draw(rt, "wrap")
			}
		}
		c.Steps = append(c.Steps, st)
	}
	return c
}

// propC19FE: a request handed to zhttp (form body or query string) is input data like any other: parsing it leaves
// the request's parsed form as it was, and parsing the same request again gives the same result.
func propC19FE(c c14Case) hh.Verdict {
	v := hh.Verdict{}
	for _, fe := range []string{model.FEForm, model.FEQuery} {
		if len(c.FEs) > 0 && !contains(c.FEs, fe) {
			continue
		}
		r, err := model.RenderFE(fe, c.Root, c.Logical)
		if err != nil {
			continue
		}
		c.Root.Number()
		env := &model.Env{}
		schema, typ := model.Build(c.Root, env)
		req := r.Req
		if err := req.ParseForm(); err != nil { // a handler may well have looked at the form before
			r.Cleanup()
			continue
		}
		snap := func() string {
			return fmt.Sprintf("Form=%v PostForm=%v RawQuery=%q %s", model.SortedPairs(req.Form), model.SortedPairs(req.PostForm), req.URL.RawQuery, requestEnvelope(req))
		}
		before := snap()
		var firstObs string
		for run := 0; run < 3; run++ {
			dest := reflect.New(typ)
			res := model.Run(schema, env, model.Exec{Mode: "parse"}, zhttp.Request(req), dest)
			if res.Panic != nil {
				r.Cleanup()
				return hh.Fail("[%s] panic: %v (input %s)", fe, res.Panic, r.Text)
			}
			if after := snap(); after != before {
				r.Cleanup()
				return hh.Fail("[%s] Parse modified the request it was given: before %s after %s", fe, before, after)
			}
			obs := fmtIss(res.Norm(true))
			if res.NoIssues() {
				obs += " dest=" + model.CanonJSON(dest.Elem())
			}
			if run == 0 {
				firstObs = obs
			} else if obs != firstObs {
				r.Cleanup()
				return hh.Fail("[%s] the same request parsed again gives a different result: first %s, run %d %s (input %s)", fe, firstObs, run, obs, r.Text)
			}
		}
		r.Cleanup()
		v.Classes = append(v.Classes, "fe:"+fe)
		if fe == model.FEForm {
			// the same record in a request the front end cannot decode (a raw % in the body), sent by a client that
			// adds parameters to its Content-Type: what the handler, a logger or a proxy reads from the request
			// afterwards is what the client sent
			for _, ct := range []string{"application/x-www-form-urlencoded; charset=utf-8", "application/x-www-form-urlencoded;charset=UTF-8", "application/x-www-form-urlencoded"} {
				bad, _ := http.NewRequest("POST", "http://example.test/x?src=q", strings.NewReader(r.Text+"&note=100% cotton"))
				bad.Header.Set("Content-Type", ct)
				bad.Header.Set("X-Request-Id", "r-1")
				before := requestEnvelope(bad)
				for run := 0; run < 2; run++ {
					res := model.Run(schema, env, model.Exec{Mode: "parse"}, zhttp.Request(bad), reflect.New(typ))
					if res.Panic != nil {
						return hh.Fail("[form, undecodable body] panic: %v", res.Panic)
					}
					if after := requestEnvelope(bad); after != before {
						return hh.Fail("[form, undecodable body] Parse modified the request it was given: before %s after %s", before, after)
					}
				}
			}
			v.Classes = append(v.Classes, "undecodable-twin")
		}
		if strings.Contains(r.Text, "%5B%5D=") {
			v.Nontrivial = true
			v.Classes = append(v.Classes, "list-parameter")
		}
	}
	return v
}

// propC19Validate: "Validate changes the validated value only through Default, Catch and PostTransform" (and through
// the output of a Preprocess function that succeeded, which is written back as documented): after Validate the whole
// value must equal the specification's, also when issues were reported and also below a Preprocess whose function failed.
func propC19Validate(c model.Case) hh.Verdict {
	c.Root.Number()
	env := &model.Env{}
	schema, typ := model.Build(c.Root, env)
	pre, failedPre := 0, 0
	c.Root.Walk(func(n *model.Node) {
		if n.Kind == model.KPre {
			pre++
		}
	})
	v := hh.Verdict{Classes: shapeClasses(c.Root)}
	for run := 0; run < 3; run++ {
		dest := newDest(typ, c, false)
		before := model.CanonJSON(dest.Elem())
		spec, exp := runSpec(c, dest)
		if spec.Unknown != "" {
			return hh.Verdict{Skip: "specification-undetermined"}
		}
		res := model.Run(schema, env, c.Exec, nil, dest)
		if res.Panic != nil {
			return hh.Fail("panic: %v", res.Panic)
		}
		got, want := model.CanonJSON(dest.Elem()), model.CanonJSON(exp)
		if got != want {
			return hh.Fail("after Validate the value is %s, expected %s (it was %s; issues %s) (run %d)", got, want, before, fmtIss(res.Norm(false)), run)
		}
		for _, is := range spec.Issues {
			if is.Code == "*" {
				failedPre++
			}
		}
		if !res.NoIssues() && got != before {
			v.Classes = append(v.Classes, "changed-and-issues")
		}
	}
	if pre > 0 {
		v.Classes = append(v.Classes, "has-preprocess")
	}
	if failedPre > 0 {
		v.Classes = append(v.Classes, "preprocess-function-failed")
	}
	v.Nontrivial = failedPre > 0 || contains(v.Classes, "changed-and-issues")
	return v
}

// requestEnvelope: what a request says besides its parsed form: method, URL, headers, declared length.
func requestEnvelope(r *http.Request) string {
	var hs []string
	for k, v := range r.Header {
		hs = append(hs, fmt.Sprintf("%s=%q", k, v))
	}
	sort.Strings(hs)
	return fmt.Sprintf("method=%s url=%s headers=%v length=%d", r.Method, r.URL.String(), hs, r.ContentLength)
}

func TestC19(t *testing.T) {
	h := hh.Start(t, "C19",
		"cases = one schema (slice and primitive defaults, catch values, OneOf lists, Contains values, destination-mutating PostTransforms) and a history of 2-6 executions in both modes, some repeated verbatim, some with an execution-level formatter of their own; inputs are nested maps / slices, optionally behind one or two pointers, requests handed to zhttp (form bodies and query strings with list parameters, parsed three times each), or Go values of the destination's own type (same pointer, slice and struct types as the destination); sub-check validate-value: Validate-only cases with Preprocess wrappers, Defaults and Catch values whose whole value afterwards is compared with the specification's (non-trivial there = a Preprocess function failed, or the value changed while issues were reported); non-trivial = a slice default exists and an execution follows one whose destination was scribbled over, or the input holds nested maps/slices; distinct = FNV-1a of the case JSON",
		"invariants after every step: deep snapshot of the input unchanged; deep snapshots of every reference-typed value handed to the schema at construction unchanged, also after the harness overwrites every part of the returned destination (incl. spare slice capacity); a verbatim repeated execution gives the same issues and destination as the first time; Validate leaves the value unchanged when the schema has no Default, Catch or PostTransform",
		"schema-owned values are observed through the references the harness keeps (slice defaults, OneOf lists); value-typed defaults cannot be aliased and are covered by the repeated-execution clause")
	defer h.Finish()
	cfg := model.DefaultCfg("parse")
	cfg.NoCustom = true
	cfg.PDefault, cfg.PCatch, cfg.PPost, cfg.PVary, cfg.PAbsent, cfg.PJunk, cfg.POpts = 0.45, 0.25, 0.3, 0.3, 0.3, 0.03, 0.3
	if h.Thorough() {
		cfg.MaxDepth, cfg.MaxFields, cfg.MaxElems = 4, 6, 5
	}
	hh.Sub(h, "histories", h.N(10000, 60000), func(rt *rapid.T) c19Case { return genC19(rt, cfg) }, propC19)
	fcfg := model.DefaultCfg("parse")
	fcfg.PPost, fcfg.PCatch, fcfg.PJunk, fcfg.PDefault = 0, 0.1, 0, 0.2
	fcfg.PVary, fcfg.PAbsent, fcfg.PTestSat, fcfg.PZogTag, fcfg.MaxElems = 0.3, 0.25, 0.85, 0.2, 5
	vcfg := model.DefaultCfg("validate")
	vcfg.PPre, vcfg.PPost, vcfg.PDefault, vcfg.PCatch, vcfg.PVary, vcfg.PAbsent, vcfg.PTestSat = 0.3, 0, 0.3, 0.2, 0.4, 0.25, 0.6
	hh.Sub(h, "validate-value", h.N(5000, 40000), func(rt *rapid.T) model.Case { return model.GenCase(rt, vcfg) }, propC19Validate)
	hh.Sub(h, "requests", h.N(4000, 30000), func(rt *rapid.T) c14Case { return genC14With(rt, fcfg, true, true) }, propC19FE)
}
