package props

import (
	"fmt"
	"reflect"
	"strings"
	"testing"

	z "github.com/Oudwins/zog"
	"pgregory.net/rapid"

	"verifharness/hh"
	"verifharness/model"
)

// C10: the issue map is well-formed and addresses every issue by its path.

type feCase struct {
	Root    *model.Node `json:"root"`
	Logical model.Val   `json:"logical"` // record keyed by schema key (parse) or typed value (validate)
	FE      string      `json:"fe"`
	Mode    string      `json:"mode"`
	Cold    bool        `json:"cold,omitempty"` // the execution starts with empty object pools
}

// runFE renders the record for the front end, runs the specification and zog.
func runFE(c feCase, logIssues bool) (*model.SpecOut, *model.Result, reflect.Value, string, string) {
	c.Root.Number()
	env := &model.Env{}
	schema, typ := model.Build(c.Root, env)
	exec := model.Exec{Mode: c.Mode, LogIssues: logIssues, Cold: c.Cold}
	if !c.Cold {
		processPrelude() // earlier invalid inputs whose issues were handed back, a recovered panic
	}
	if c.Mode == "validate" {
		cs := model.Case{Root: c.Root, Input: c.Logical, Exec: exec}
		dest := newDest(typ, cs, false)
		spec := model.Spec(c.Root, model.SpecCfg{Mode: "validate"}, nil, model.DeepCopy(dest.Elem()))
		if spec.Unknown != "" {
			return spec, nil, dest, "", "spec-undetermined"
		}
		res := model.Run(schema, env, exec, nil, dest)
		return spec, res, dest, "", ""
	}
	if c.Root.Kind == model.KPtr && c.FE != model.FEMap && (c.Logical.IsNil() || len(c.Logical.M) == 0) {
		// an EMPTY record under a pointer root means "the struct does not exist" (pinned by the repository's own test)
		return nil, nil, reflect.Value{}, "", "empty-record-under-pointer-root"
	}
	r, err := model.RenderFE(c.FE, c.Root, c.Logical)
	if err != nil {
		return nil, nil, reflect.Value{}, "", "not-expressible-in-front-end"
	}
	defer r.Cleanup()
	dest := reflect.New(typ)
	cfg := model.SpecCfg{Mode: "parse", KeyOf: model.KeyOfFE(c.FE)}
	if model.IsFlat(c.FE) {
		cfg.Flat = r.SpecIn.(map[string]any)
	}
	exp := model.DeepCopy(dest.Elem())
	if _, isObj := r.SpecIn.(map[string]any); !isObj && (c.FE == model.FEJSON || c.FE == model.FEHTTPJSON) {
		// a JSON document that is not an object cannot be decoded into a record:
		// exactly one top-level invalid_json issue, the schema does not run
		spec := &model.SpecOut{Issues: []model.Iss{{Path: "", Code: "invalid_json", Dtype: c.Root.ZType()}}}
		res := model.Run(schema, env, exec, r.Data, dest)
		return spec, res, exp, r.Text, ""
	}
	spec := model.Spec(c.Root, cfg, r.SpecIn, exp)
	if spec.Unknown != "" {
		return spec, nil, dest, r.Text, "spec-undetermined"
	}
	res := model.Run(schema, env, exec, r.Data, dest)
	return spec, res, exp, r.Text, ""
}

func hasMsgOpts(n *model.Node) bool {
	f := false
	n.Walk(func(x *model.Node) {
		for _, t := range x.Tests {
			if t.Opts.Msg != "" || t.Opts.MsgFunc != "" {
				f = true
			}
		}
		if x.ReqOpts != nil && (x.ReqOpts.Msg != "" || x.ReqOpts.MsgFunc != "") {
			f = true
		}
	})
	return f
}

func checkIssueMap(res *model.Result, rootHasMsg bool) string {
	if !res.IsMap {
		// list results: sanitizer round trip only
		san := z.Issues.SanitizeList(res.List)
		if len(san) != len(res.List) {
			return "SanitizeList changed the length"
		}
		for i, is := range res.List {
			if san[i] != is.Message {
				return fmt.Sprintf("SanitizeList[%d]=%q but message is %q", i, san[i], is.Message)
			}
		}
		return ""
	}
	m := res.Map
	if m == nil {
		return ""
	}
	if len(m) == 0 {
		return "non-nil but empty issue map"
	}
	seen := map[*z.ZogIssue]string{}
	total := 0
	for k, list := range m {
		if len(list) == 0 {
			return fmt.Sprintf("key %q maps to an empty list", k)
		}
		if k == "$first" {
			continue
		}
		for _, is := range list {
			if is == nil {
				return fmt.Sprintf("nil issue under %q", k)
			}
			want := is.Path
			if want == "" {
				want = "$root"
			}
			if want != k {
				return fmt.Sprintf("issue with Path %q stored under key %q", is.Path, k)
			}
			if prev, dup := seen[is]; dup {
				return fmt.Sprintf("the same issue object appears under %q and %q", prev, k)
			}
			seen[is] = k
			total++
		}
	}
	first, ok := m["$first"]
	if !ok || len(first) != 1 {
		return fmt.Sprintf("$first holds %d issues", len(first))
	}
	if _, in := seen[first[0]]; !in {
		return "$first is not one of the issues of the map"
	}
	if total == 0 {
		return "map holds only $first"
	}
	// the first issue recorded: the execution formatter logs every issue whose message was still empty
	if !rootHasMsg {
		for _, ev := range res.Log {
			if ev.Kind == "issue" {
				if ev.Issue != first[0] {
					return fmt.Sprintf("$first is the issue at %q (%s) but the first one recorded was at %q (%s)", first[0].Path, first[0].Code, ev.Path, ev.Code)
				}
				break
			}
		}
	}
	san := z.Issues.SanitizeMap(m)
	if len(san) != len(m) {
		return "SanitizeMap changed the key set"
	}
	for k, list := range m {
		sl, ok := san[k]
		if !ok || len(sl) != len(list) {
			return fmt.Sprintf("SanitizeMap: key %q has %d messages for %d issues", k, len(sl), len(list))
		}
		for i := range list {
			if sl[i] != list[i].Message {
				return fmt.Sprintf("SanitizeMap[%q][%d]=%q, message is %q", k, i, sl[i], list[i].Message)
			}
		}
	}
	return ""
}

func propC10(c feCase) hh.Verdict {
	spec, res, _, _, skip := runFE(c, true)
	if skip != "" {
		return hh.Verdict{Skip: skip}
	}
	if res.Panic != nil {
		return hh.Fail("panic: %v", res.Panic)
	}
	got := res.Norm(false)
	if !model.EqualIssSpec(got, spec.Issues) {
		return hh.Fail("issue paths/codes differ from the documented key chain [%s/%s]: got %s want %s", c.Mode, c.FE, fmtIss(got), fmtIss(spec.Issues))
	}
	if res.NoIssues() != (len(spec.Issues) == 0) {
		return hh.Fail("nil-ness: result nil=%v with %d expected issues", res.NoIssues(), len(spec.Issues))
	}
	processPrelude() // other executions run while the caller still holds this map: it stays the caller's
	if msg := checkIssueMap(res, hasMsgOpts(c.Root)); msg != "" {
		return hh.Fail("malformed issue map [%s/%s]: %s", c.Mode, c.FE, msg)
	}
	v := hh.Verdict{Classes: []string{"fe:" + c.FE, "mode:" + c.Mode}}
	deep, renamed, ipath := 0, false, false
	for _, d := range spec.Detailed {
		if strings.Count(d.Path, ".")+strings.Count(d.Path, "[") >= 1 {
			deep++
		}
		if d.Idx >= 0 && d.Idx < len(d.Node.Tests) && d.Node.Tests[d.Idx].Opts.Path != "" {
			ipath = true
		}
	}
	c.Root.Walk(func(n *model.Node) {
		for _, f := range n.Fields {
			if len(f.Tags) > 0 {
				renamed = true
			}
		}
	})
	if len(spec.Issues) >= 2 {
		v.Classes = append(v.Classes, "issues>=2")
	}
	if spec.PostFailed {
		v.Classes = append(v.Classes, "issue-from-posttransform-error")
	}
	for _, d := range spec.Detailed {
		if strings.Count(d.Path, ".")+strings.Count(d.Path, "[") >= 5 {
			v.Classes = append(v.Classes, "path>=6-segments")
			break
		}
	}
	if renamed {
		v.Classes = append(v.Classes, "tagged")
	}
	v.Nontrivial = len(spec.Issues) >= 2 && (deep >= 2 || renamed || ipath)
	return v
}

func genFE(rt *rapid.T, h *hh.H, mode string, fes []string, cfg model.GenCfg) feCase {
	fe := model.FEMap
	if mode == "parse" {
		fe = rapid.SampledFrom(fes).Draw(rt, "fe")
	}
	cfg.Mode = mode
	cfg.LogicalKeys = mode == "parse"
	cfg.NoAltRepr = true
	cfg.NoCustom = true
	if fe != model.FEMap {
		cfg.RootKinds = []string{model.KStruct}
		cfg.TagKinds = []string{model.SourceTag(fe), "json", "query"}
		cfg.PSourceTag = 0.4
	} else {
		cfg.TagKinds = []string{"json", "form"}
		cfg.PSourceTag = 0.2
	}
	if model.IsFlat(fe) {
		cfg.PJunk = 0
		cfg.NoNestedStructs = true // flat sources: see the nested-struct finding; nested structs are probed separately
		cfg.LeafKinds = []string{model.KString, model.KInt, model.KInt64, model.KFloat64, model.KBool, model.KTime}
	}
	if h.Open("source-tag-below-depth-1") {
		cfg.NoNestedSourceTags = true
	}
	g := model.NewGen(rt, cfg)
	root := g.GenNode(cfg.MaxDepth, true)
	model.NormalisePosts(root)
	if fe != model.FEMap && root.Kind == model.KStruct && rapid.IntRange(0, 4).Draw(rt, "ptrroot") == 0 {
		// "a struct that may not exist": Ptr(Struct) at the root, also fed by the front-end factories
		root = &model.Node{Kind: model.KPtr, Elem: root, Req: rapid.Bool().Draw(rt, "notnil")}
	}
	root.Number()
	typed := g.GenTyped(root)
	c := feCase{Root: root, FE: fe, Mode: mode}
	if mode == "parse" {
		c.Logical, _ = g.Render(root, typed, "root")
	} else {
		c.Logical = typed
	}
	return c
}

func TestC10(t *testing.T) {
	h := hh.Start(t, "C10",
		"cases = nested struct/slice/pointer schemas with random struct-tag sets (distinct names per tag kind), several simultaneously failing nodes, IssuePath overrides, root-level failures, PostTransforms that return errors or issues, through every front end (map, zjson, zhttp JSON/form/query, zenv) and in Validate; non-trivial = >=2 issues and (>=2 of them below the root, or a tag-renamed key, or an IssuePath); distinct = FNV-1a of the case JSON",
		"invariants on every returned map: each issue exactly once under the key equal to its Path ($root for the empty path), $first a singleton that is one of the issues and (when no test sets its own message) pointer-identical to the first issue recorded, no empty lists, nil iff no issue; paths equal the documented key chain (source tag, zog tag, schema key; [i]; IssuePath wins) computed by the specification; SanitizeMap/SanitizeList keep keys and order",
		"tag values are never empty and contain no dots (a dot in a key is indistinguishable from nesting in a path); commas are part of the key: the whole tag value names it")
	defer h.Finish()
	base := model.DefaultCfg("parse")
	base.PPost, base.PCatch = 0, 0.1
	base.PVary, base.PAbsent, base.PJunk, base.PTestSat, base.POpts, base.PZogTag = 0.5, 0.2, 0.06, 0.6, 0.25, 0.35
	if h.Thorough() {
		base.MaxDepth, base.MaxFields, base.MaxElems = 4, 6, 5
	}
	hh.SubEx(h, "parse", h.N(25000, 120000), func(rt *rapid.T) feCase { return genFE(rt, h, "parse", model.AllFrontEnds, base) }, propC10, func(c feCase) string {
		if h.Open("source-tag-on-empty-object") && emptyObjectWithSourceTags(c) {
			return "source-tag-on-empty-object"
		}
		return ""
	})
	hh.Sub(h, "validate", h.N(10000, 60000), func(rt *rapid.T) feCase { return genFE(rt, h, "validate", nil, base) }, propC10)
	// deep nestings (paths of six and more segments, slices inside slices inside structs) on cold pools: the path of an
	// issue is built from helper objects that start small and grow during the first deep execution
	deep := base
	deep.MaxDepth, deep.MaxFields, deep.MaxElems, deep.PLight = 6, 2, 3, 0.6
	deep.PTestSat, deep.PAbsent, deep.PJunk, deep.PLong = 0.55, 0.1, 0.03, 0 // (no long lists: six levels of them would not end)
	deep.RootKinds, deep.PreferDeep = []string{model.KStruct}, true
	for _, mode := range []string{"parse", "validate"} {
		mode := mode
		hh.SubEx(h, "deep-cold-"+mode, h.N(1200, 8000), func(rt *rapid.T) feCase {
			c := genFE(rt, h, mode, []string{model.FEMap, model.FEMap, model.FEJSON}, deep)
			c.Cold = true
			return c
		}, func(c feCase) hh.Verdict {
			v := propC10(c)
			if v.Skip == "" && v.Err == "" {
				v.Nontrivial = false
				for _, cl := range v.Classes {
					if cl == "path>=6-segments" {
						v.Nontrivial = true
					}
				}
			}
			return v
		}, func(c feCase) string {
			if h.Open("source-tag-on-empty-object") && emptyObjectWithSourceTags(c) {
				return "source-tag-on-empty-object"
			}
			return ""
		})
	}
	// very long paths (chains of 8-16 containers), executed one after the other on the same pools: the helper objects
	// that build a path grow, are handed back, and serve the next execution
	for _, mode := range []string{"parse", "validate"} {
		mode := mode
		hh.Sub(h, "long-paths-"+mode, h.N(1500, 8000), func(rt *rapid.T) feCase {
			root, val := model.GenChain(rt, rapid.IntRange(8, 16).Draw(rt, "depth"))
			return feCase{Root: root, Logical: val, FE: model.FEMap, Mode: mode}
		}, func(c feCase) hh.Verdict {
			v := propC10(c)
			if v.Skip == "" && v.Err == "" {
				v.Nontrivial = contains(v.Classes, "path>=6-segments")
			}
			return v
		})
	}
	// issues that come from a PostTransform's returned error are keyed by their own node's path too, whatever options
	// (IssuePath ...) the tests of other nodes carry: mostly valid records, so that the failing transform is reached
	pe := base
	pe.PPost, pe.PostBehaviours = 0.2, []string{"mutate", "error", "wrapped", "issue", "error", "issue-nopath", "ctxissue"}
	pe.PTestSat, pe.PAbsent, pe.PJunk, pe.PVary, pe.POpts, pe.PCatch = 0.97, 0.05, 0, 0.15, 0.5, 0.25
	for _, mode := range []string{"parse", "validate"} {
		mode := mode
		hh.SubEx(h, "post-errors-"+mode, h.N(8000, 40000), func(rt *rapid.T) feCase {
			return genFE(rt, h, mode, []string{model.FEMap, model.FEMap, model.FEJSON, model.FEForm}, pe)
		}, func(c feCase) hh.Verdict {
			v := propC10(c)
			if v.Skip == "" && v.Err == "" {
				failing := false
				c.Root.Walk(func(n *model.Node) {
					for _, p := range n.Posts {
						failing = failing || p.Behaviour != "mutate"
					}
				})
				v.Nontrivial = failing && contains(v.Classes, "issue-from-posttransform-error")
			}
			return v
		}, func(c feCase) string {
			if h.Open("source-tag-on-empty-object") && emptyObjectWithSourceTags(c) {
				return "source-tag-on-empty-object"
			}
			return ""
		})
	}
}

// emptyObjectWithSourceTags: a JSON front end whose top-level object is empty while some field carries a json tag.
func emptyObjectWithSourceTags(c feCase) bool {
	if c.Mode != "parse" || (c.FE != model.FEJSON && c.FE != model.FEHTTPJSON) || c.Root.Kind != model.KStruct {
		return false
	}
	if len(c.Logical.M) != 0 {
		return false
	}
	for _, f := range c.Root.Fields {
		if _, ok := f.Tags["json"]; ok {
			return true
		}
	}
	return false
}
