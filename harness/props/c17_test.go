package props

import (
	"fmt"
	"reflect"
	"sort"
	"strings"
	"testing"
	"time"

	z "github.com/Oudwins/zog"
	"github.com/Oudwins/zog/conf"
	"pgregory.net/rapid"

	"verifharness/hh"
	"verifharness/model"
)

// C17: builder methods act locally and mean what they say.

type c17Call struct {
	Op   string          `json:"op"` // required | optional | default | catch | test  (a test with Not=true is preceded by Not())
	Opts *model.Opts     `json:"opts,omitempty"`
	Val  *model.Val      `json:"val,omitempty"`
	Test *model.TestSpec `json:"test,omitempty"`
}

type c17Case struct {
	Kind    string    `json:"kind"`
	Calls   []c17Call `json:"calls"`
	Input   model.Val `json:"input"`
	Mode    string    `json:"mode"`
	AsField bool      `json:"asField,omitempty"`
}

// interpret reads the chain literally: last call wins for Required/Optional,
// Default and Catch; tests accumulate; options belong to their own call.
func (c c17Case) interpret() *model.Node {
	n := &model.Node{Kind: c.Kind}
	if c.Kind == model.KSlice {
		n.Elem = &model.Node{Kind: model.KString}
	}
	for _, cl := range c.Calls {
		switch cl.Op {
		case "required":
			n.Req = true
			n.ReqOpts = cl.Opts
		case "optional":
			n.Req = false
			n.ReqOpts = nil
		case "default":
			n.Def = cl.Val
		case "catch":
			n.Catch = cl.Val
		case "test":
			n.Tests = append(n.Tests, *cl.Test)
		}
	}
	return n
}

func c17opts(e *model.Env, o *model.Opts) []z.TestOption {
	if o == nil {
		return nil
	}
	return model.TestOptions(e, *o)
}

func c17Number[T int | int32 | float64](e *model.Env, n *model.Node, s *z.NumberSchema[T], calls []c17Call) z.ZogSchema {
	conv := func(v model.Val) T { return reflect.ValueOf(v.Go()).Convert(reflect.TypeOf(T(0))).Interface().(T) }
	ti := 0
	for _, cl := range calls {
		switch cl.Op {
		case "required":
			s.Required(c17opts(e, cl.Opts)...)
		case "optional":
			s.Optional()
		case "default":
			s.Default(conv(*cl.Val))
		case "catch":
			s.Catch(conv(*cl.Val))
		case "test":
			ts := cl.Test
			o := c17opts(e, &ts.Opts)
			switch ts.Name {
			case "eq":
				s.EQ(conv(*ts.Arg), o...)
			case "lt":
				s.LT(conv(*ts.Arg), o...)
			case "lte":
				s.LTE(conv(*ts.Arg), o...)
			case "gt":
				s.GT(conv(*ts.Arg), o...)
			case "gte":
				s.GTE(conv(*ts.Arg), o...)
			case "oneof":
				l := make([]T, len(ts.Args))
				for i, a := range ts.Args {
					l[i] = conv(a)
				}
				s.OneOf(l, o...)
			case "func":
				s.TestFunc(model.TestRecorder(e, n, ti, ts.Str), o...)
			}
			ti++
		}
	}
	return s
}

// buildChain performs the builder calls on a real schema in the given order.
func buildChain(e *model.Env, c c17Case, n *model.Node) (z.ZogSchema, reflect.Type) {
	switch c.Kind {
	case model.KString:
		s := z.String()
		ti := 0
		for _, cl := range c.Calls {
			switch cl.Op {
			case "required":
				s.Required(c17opts(e, cl.Opts)...)
			case "optional":
				s.Optional()
			case "default":
				s.Default(cl.Val.S)
			case "catch":
				s.Catch(cl.Val.S)
			case "test":
				ts := cl.Test
				o := c17opts(e, &ts.Opts)
				var t z.NotStringSchema[string] = s
				if ts.Not {
					t = s.Not()
				}
				switch ts.Name {
				case "func":
					s.TestFunc(model.TestRecorder(e, n, ti, ts.Str), o...)
				case "min":
					s.Min(ts.N, o...)
				case "max":
					s.Max(ts.N, o...)
				case "len":
					t.Len(ts.N, o...)
				case "email":
					t.Email(o...)
				case "url":
					t.URL(o...)
				case "uuid":
					t.UUID(o...)
				case "match":
					t.Match(model.Regex(ts.Str), o...)
				case "prefix":
					t.HasPrefix(ts.Str, o...)
				case "suffix":
					t.HasSuffix(ts.Str, o...)
				case "contains":
					t.Contains(ts.Str, o...)
				case "upper":
					t.ContainsUpper(o...)
				case "digit":
					t.ContainsDigit(o...)
				case "special":
					t.ContainsSpecial(o...)
				case "oneof":
					l := make([]string, len(ts.Args))
					for i, a := range ts.Args {
						l[i] = a.S
					}
					t.OneOf(l, o...)
				}
				ti++
			}
		}
		return s, reflect.TypeOf("")
	case model.KInt:
		return c17Number(e, n, z.Int(), c.Calls), reflect.TypeOf(0)
	case model.KInt32:
		return c17Number(e, n, z.Int32(), c.Calls), reflect.TypeOf(int32(0))
	case model.KFloat64:
		return c17Number(e, n, z.Float64(), c.Calls), reflect.TypeOf(float64(0))
	case model.KBool:
		s := z.Bool()
		ti := 0
		for _, cl := range c.Calls {
			switch cl.Op {
			case "required":
				s.Required(c17opts(e, cl.Opts)...)
			case "optional":
				s.Optional()
			case "default":
				s.Default(cl.Val.S == "true")
			case "catch":
				s.Catch(cl.Val.S == "true")
			case "test":
				ts := cl.Test
				switch ts.Name {
				case "true":
					s.True()
				case "false":
					s.False()
				case "eq":
					s.EQ(ts.Arg.S == "true")
				case "func":
					s.TestFunc(model.TestRecorder(e, n, ti, ts.Str), c17opts(e, &ts.Opts)...)
				}
				ti++
			}
		}
		return s, reflect.TypeOf(false)
	case model.KTime:
		s := z.Time()
		ti := 0
		for _, cl := range c.Calls {
			switch cl.Op {
			case "required":
				s.Required(c17opts(e, cl.Opts)...)
			case "optional":
				s.Optional()
			case "default":
				s.Default(cl.Val.Go().(time.Time))
			case "catch":
				s.Catch(cl.Val.Go().(time.Time))
			case "test":
				ts := cl.Test
				o := c17opts(e, &ts.Opts)
				switch ts.Name {
				case "after":
					s.After(ts.Arg.Go().(time.Time), o...)
				case "before":
					s.Before(ts.Arg.Go().(time.Time), o...)
				case "eq":
					s.EQ(ts.Arg.Go().(time.Time), o...)
				case "func":
					s.TestFunc(model.TestRecorder(e, n, ti, ts.Str), o...)
				}
				ti++
			}
		}
		return s, reflect.TypeOf(time.Time{})
	case model.KSlice:
		s := z.Slice(z.String())
		ti := 0
		for _, cl := range c.Calls {
			switch cl.Op {
			case "required":
				s.Required(c17opts(e, cl.Opts)...)
			case "optional":
				s.Optional()
			case "default":
				s.Default(cl.Val.Go().([]string))
			case "test":
				ts := cl.Test
				o := c17opts(e, &ts.Opts)
				switch ts.Name {
				case "min":
					s.Min(ts.N, o...)
				case "max":
					s.Max(ts.N, o...)
				case "len":
					s.Len(ts.N, o...)
				case "contains":
					s.Contains(ts.Arg.S, o...)
				case "func":
					s.TestFunc(model.TestRecorder(e, n, ti, ts.Str), o...)
				}
				ti++
			}
		}
		return s, reflect.TypeOf([]string{})
	}
	panic("buildChain " + c.Kind)
}

func canonParams(p map[string]any) string {
	if len(p) == 0 {
		return "nil" // no params: whether as a nil or as an empty map is not part of any statement
	}
	ks := make([]string, 0, len(p))
	for k := range p {
		ks = append(ks, k)
	}
	sort.Strings(ks)
	var sb strings.Builder
	for _, k := range ks {
		fmt.Fprintf(&sb, "%s=%s;", k, model.CanonJSON(reflect.ValueOf(p[k])))
	}
	return sb.String()
}

// detail is the per-issue observation compared in C17.
type detail struct{ path, code, dtype, msg, params string }

func detailsSorted(d []detail) []string {
	out := make([]string, len(d))
	for i, x := range d {
		out[i] = fmt.Sprintf("{path=%q code=%q type=%q msg=%q params=%s}", x.path, x.code, x.dtype, x.msg, x.params)
	}
	sort.Strings(out)
	return out
}

func expectedDetails(spec *model.SpecOut, markers map[string]bool) []detail {
	var out []detail
	for _, d := range spec.Detailed {
		x := detail{path: d.Path, code: d.Code, dtype: d.Dtype, msg: "<default>", params: "nil"}
		var o *model.Opts
		switch {
		case d.Idx >= 0 && d.Idx < len(d.Node.Tests):
			ts := d.Node.Tests[d.Idx]
			o = &ts.Opts
			elem := ""
			if d.Node.Elem != nil {
				elem = d.Node.Elem.Kind
			}
			x.params = canonParams(model.DefaultParams(d.Node.Kind, elem, ts))
		case d.Idx == -1:
			o = d.Node.ReqOpts
		}
		if o != nil {
			if o.Msg != "" {
				x.msg = o.Msg
			}
			if o.MsgFunc != "" && !(o.Msg != "" && o.MsgLast) {
				x.msg = o.MsgFunc // of Message and MessageFunc the one passed later decides
				if o.MsgFunc == model.NoopMsgFunc {
					x.msg = "<default>" // a MessageFunc that sets nothing leaves the message to the formatters below it
				}
			}
			if o.HasParams {
				m := map[string]any{}
				for k, v := range o.Params {
					m[k] = v
				}
				x.params = canonParams(m)
			}
			markers[o.Msg], markers[o.MsgFunc] = true, true
		}
		out = append(out, x)
	}
	return out
}

func propC17(c c17Case) hh.Verdict {
	node := c.interpret()
	root := node
	in := c.Input
	if c.AsField {
		other := &model.Node{Kind: c.Kind, Req: true}
		if c.Kind == model.KSlice {
			other.Elem = &model.Node{Kind: model.KString}
		}
		root = &model.Node{Kind: model.KStruct, Fields: []model.Field{{Key: "x", Node: node}, {Key: "y", Node: other}}}
	}
	root.Number()
	env := &model.Env{}
	schema, typ := buildChain(env, c, node)
	if c.AsField {
		o, ot := model.Build(root.Fields[1].Node, env)
		schema = z.Struct(z.Schema{"x": schema, "y": o})
		typ = reflect.StructOf([]reflect.StructField{{Name: "X", Type: typ}, {Name: "Y", Type: ot}})
	}
	cs := model.Case{Root: root, Input: in, Exec: model.Exec{Mode: c.Mode}}
	spec, exp := runSpec(cs, newDest(typ, cs, false))
	if spec.Unknown != "" {
		return hh.Verdict{Skip: "spec-undetermined"}
	}
	markers := map[string]bool{}
	want := detailsSorted(expectedDetails(spec, markers))
	delete(markers, "")
	var input any
	if c.Mode == "parse" {
		input = in.Go()
	}
	dest := newDest(typ, cs, false)
	processPrelude() // recycled issues (with the texts of other tests) are what this execution builds its own issues from
	// the chain is read once; the schema it built is used many times: the second use follows the first one's issues
	// being handed back through the Collect helpers, and must read the same
	var res *model.Result
	for use := 0; use < 2; use++ {
		if use == 1 {
			if res.NoIssues() {
				break
			}
			if res.IsMap {
				z.Issues.CollectMap(res.Map)
			} else {
				z.Issues.CollectList(res.List)
			}
			dest = newDest(typ, cs, false)
		}
		res = model.Run(schema, env, cs.Exec, input, dest)
		if res.Panic != nil {
			return hh.Fail("panic: %v", res.Panic)
		}
		if bad := c17Compare(res, markers, want, use); bad != "" {
			return hh.Fail("%s", bad)
		}
	}
	var got []detail
	for _, is := range res.All() {
		d := detail{path: is.Path, code: is.Code, dtype: is.Dtype, msg: "<default>", params: canonParams(is.Params)}
		if markers[is.Message] {
			d.msg = is.Message
		} else {
			// "<default>" means: what the default formatter renders for THIS issue (not some other issue's text)
			cp := *is
			cp.Message = ""
			conf.DefaultIssueFormatter(&cp, nil)
			if cp.Message != is.Message {
				d.msg = "<foreign: " + is.Message + ">"
			}
		}
		got = append(got, d)
	}
	gs := detailsSorted(got)
	if strings.Join(gs, "\n") != strings.Join(want, "\n") {
		return hh.Fail("issues of the chain differ from its literal reading:\n got  %v\n want %v", gs, want)
	}
	if len(spec.Issues) == 0 && !spec.DestUnknown {
		if g, w := model.CanonJSON(dest.Elem()), model.CanonJSON(exp); g != w {
			return hh.Fail("destination differs: got %s want %s", g, w)
		}
	}
	v := hh.Verdict{Classes: []string{"kind:" + c.Kind, "mode:" + c.Mode}}
	nots, mods, opted, tests := 0, 0, 0, 0
	notFollowed := false
	for i, cl := range c.Calls {
		switch cl.Op {
		case "test":
			tests++
			if cl.Test.Not {
				nots++
				k := 0
				for _, l := range c.Calls[i+1:] {
					if l.Op == "test" {
						k++
					}
				}
				if k >= 2 {
					notFollowed = true
				}
			}
			o := cl.Test.Opts
			if o.Msg != "" || o.MsgFunc != "" || o.Path != "" || o.HasParams || (o.Code != "" && cl.Test.Name != "func") {
				opted++
			}
		case "required", "optional", "default", "catch":
			mods++
		}
	}
	if nots > 0 {
		v.Classes = append(v.Classes, "has-not")
	}
	if opted > 0 {
		v.Classes = append(v.Classes, "has-options")
	}
	if len(spec.Issues) > 0 {
		v.Classes = append(v.Classes, "has-issues")
	}
	v.Nontrivial = notFollowed || mods >= 2 || (opted >= 1 && tests >= 2)
	return v
}

// c17Compare: the issues of one use of the chain's schema against the chain's literal reading.
func c17Compare(res *model.Result, markers map[string]bool, want []string, use int) string {
	var got []detail
	for _, is := range res.All() {
		d := detail{path: is.Path, code: is.Code, dtype: is.Dtype, msg: "<default>", params: canonParams(is.Params)}
		if markers[is.Message] {
			d.msg = is.Message
		} else {
			cp := *is
			cp.Message = ""
			conf.DefaultIssueFormatter(&cp, nil)
			if cp.Message != is.Message {
				d.msg = "<foreign: " + is.Message + ">"
			}
		}
		got = append(got, d)
	}
	gs := detailsSorted(got)
	if strings.Join(gs, "\n") != strings.Join(want, "\n") {
		return fmt.Sprintf("issues of the chain differ from its literal reading (use %d of the schema):\n got  %v\n want %v", use+1, gs, want)
	}
	return ""
}

func genC17(rt *rapid.T, mode string) c17Case {
	cfg := model.DefaultCfg(mode)
	cfg.POpts, cfg.PComplex = 0, 0 // (this check applies builder calls itself; complex tests are not builder options)
	g := model.NewGen(rt, cfg)
	c := c17Case{Mode: mode}
	c.Kind = rapid.SampledFrom([]string{model.KString, model.KString, model.KInt, model.KInt32, model.KFloat64, model.KBool, model.KTime, model.KSlice}).Draw(rt, "kind")
	c.AsField = rapid.Bool().Draw(rt, "asField")
	var w model.Val
	var wl []model.Val
	if c.Kind == model.KSlice {
		for i, k := 0, g.Intn(1, 3, "wl"); i < k; i++ {
			wl = append(wl, g.Witness(model.KString))
		}
		w = model.Val{T: "strlist", L: wl}
	} else {
		w = g.Witness(c.Kind)
	}
	genOpts := func() model.Opts {
		var o model.Opts
		if !g.P(0.4, "opts") {
			return o
		}
		for _, k := range rapid.SliceOfNDistinct(rapid.SampledFrom([]string{"msg", "msgfunc", "code", "path", "params"}), 1, 3, rapid.ID[string]).Draw(rt, "optkinds") {
			switch k {
			case "msg":
				o.Msg = rapid.SampledFrom([]string{"MSG-A", "MSG-B"}).Draw(rt, "m")
			case "msgfunc":
				o.MsgFunc = rapid.SampledFrom([]string{"FN-A", "FN-B", model.NoopMsgFunc}).Draw(rt, "mf")
			case "code":
				o.Code = rapid.SampledFrom([]string{"code_a", "code_b", "min"}).Draw(rt, "c")
			case "path":
				o.Path = rapid.SampledFrom([]string{"p.a", "p.b"}).Draw(rt, "p")
			case "params":
				o.HasParams = true
				o.Params = map[string]string{rapid.SampledFrom([]string{"k1", "min"}).Draw(rt, "pk"): "v"}
				if rapid.IntRange(0, 3).Draw(rt, "emptyparams") == 0 {
					o.Params = nil // Params(map[string]any{}): this test carries no params at all
				}
			}
		}
		if o.Msg != "" && o.MsgFunc != "" {
			o.MsgLast = rapid.Bool().Draw(rt, "msglast") // both given: the one passed later decides
		}
		return o
	}
	ncalls := g.Intn(1, 7, "ncalls")
	ti := 0
	for i := 0; i < ncalls; i++ {
		op := rapid.SampledFrom([]string{"test", "test", "test", "required", "optional", "default", "catch", "test"}).Draw(rt, "op")
		switch op {
		case "required":
			o := genOpts()
			o.HasParams, o.Params = false, nil
			cl := c17Call{Op: op}
			if o.Msg != "" || o.MsgFunc != "" || o.Code != "" || o.Path != "" {
				cl.Opts = &o
			}
			c.Calls = append(c.Calls, cl)
		case "optional":
			c.Calls = append(c.Calls, c17Call{Op: op})
		case "default", "catch":
			if c.Kind == model.KSlice {
				if op == "catch" {
					continue
				}
				d := model.Val{T: "strlist", L: []model.Val{model.Str("d1"), g.Witness(model.KString)}}
				c.Calls = append(c.Calls, c17Call{Op: op, Val: &d})
				continue
			}
			d := w
			if g.P(0.6, "dv") {
				d = g.Vary(c.Kind, w)
			}
			c.Calls = append(c.Calls, c17Call{Op: op, Val: &d})
		case "test":
			var ts model.TestSpec
			ok := false
			if c.Kind == model.KSlice {
				name := rapid.SampledFrom([]string{"min", "max", "len", "contains", "func"}).Draw(rt, "stn")
				switch name {
				case "contains":
					a := wl[0]
					if g.P(0.3, "ca") {
						a = model.Str("zq")
					}
					ts = model.TestSpec{Name: name, Arg: &a}
				case "func":
					ts = model.TestSpec{Name: name, Str: rapid.SampledFrom([]string{"pass", "fail", "lenEven"}).Draw(rt, "fp"), Opts: model.Opts{Code: fmt.Sprintf("f%d", ti)}}
				default:
					ts = model.TestSpec{Name: name, N: g.Intn(0, 3, "n")}
				}
				ok = true
			} else {
				ts, ok = g.GenTest(c.Kind, w, g.P(0.6, "sat"), ti)
				if ok && c.Kind == model.KString && ts.Name != "min" && ts.Name != "max" && ts.Name != "func" && g.P(0.25, "morenot") {
					ts.Not = true
				}
			}
			if !ok {
				continue
			}
			if c.Kind != model.KBool || ts.Name == "func" {
				o := genOpts()
				if ts.Name == "func" && o.Code == "" {
					o.Code = ts.Opts.Code
				}
				ts.Opts = o
			}
			c.Calls = append(c.Calls, c17Call{Op: "test", Test: &ts})
			ti++
		}
	}
	// input: the witness or a neighbour, in the typed form; absent sometimes
	node := c.interpret()
	var typed model.Val
	switch {
	case g.P(0.15, "absent"):
		typed = model.Nil()
	case c.Kind == model.KSlice:
		typed = model.Val{T: "strlist", L: wl}
		if g.P(0.3, "sv") {
			typed.L = append([]model.Val{model.Str("zq")}, wl...)
		}
	case g.P(0.4, "vary"):
		typed = g.Vary(c.Kind, w)
	default:
		typed = w
	}
	in := typed
	if mode == "parse" && !typed.IsNil() && c.Kind != model.KSlice {
		in = g.AltRepr(node, typed)
	}
	if mode == "parse" && typed.IsNil() && g.P(0.5, "ws") {
		in = model.Str(" ")
	}
	if c.AsField {
		other := model.Val(w)
		if c.Kind == model.KSlice {
			other = model.Val{T: "strlist", L: wl}
		}
		m := model.Val{T: "map", M: []model.KV{{K: "y", V: other}}}
		if !(in.IsNil() && mode == "parse" && g.P(0.5, "missing")) {
			m.M = append(m.M, model.KV{K: "x", V: in})
		}
		in = m
	}
	c.Input = in
	return c
}

// ---- shared schema objects and coercer locality ----

type c17Shared struct {
	Case model.Case `json:"case"`
}

func propC17Shared(sc c17Shared) hh.Verdict {
	c := sc.Case
	_, bad, skip := conform(c, 2, false, true, false)
	if skip != "" {
		return hh.Verdict{Skip: skip}
	}
	if bad != "" {
		return hh.Fail("schema object shared between positions behaves differently from independent copies: %s", bad)
	}
	shared := 0
	c.Root.Walk(func(n *model.Node) {
		if n.ShareID != 0 {
			shared++
		}
	})
	return hh.Verdict{Nontrivial: shared >= 2, Classes: []string{"mode:" + c.Exec.Mode}}
}

// genShared draws a struct whose fields reuse one schema object at several
// places (directly, as slice element, behind a pointer) with different inputs.
func genShared(rt *rapid.T, mode string) c17Shared {
	cfg := model.DefaultCfg(mode)
	cfg.MaxDepth, cfg.PPost, cfg.NoCustom = 1, 0, true
	cfg.PVary, cfg.PAbsent, cfg.PJunk = 0.4, 0.15, 0.05
	g := model.NewGen(rt, cfg)
	root := sharedRoot(rt, g)
	typed := g.GenTyped(root)
	c := model.Case{Root: root, Exec: model.Exec{Mode: mode}}
	if mode == "parse" {
		c.Input, _ = g.Render(root, typed, "root")
	} else {
		c.Input = typed
	}
	return c17Shared{Case: c}
}

// sharedRoot draws a struct whose fields reuse ONE schema object at 2-3 places
// (directly, as slice element, behind a pointer). For struct prototypes each
// use may have its own destination type: other field order, other zog tags.
func sharedRoot(rt *rapid.T, g *model.Gen) *model.Node {
	pd := rapid.IntRange(0, 1).Draw(rt, "pd")
	var proto *model.Node
	if pd == 1 && rapid.Bool().Draw(rt, "structproto") {
		saved := g.Cfg.RootKinds
		g.Cfg.RootKinds = []string{model.KStruct}
		g.Cfg.MaxFields = 4
		proto = g.GenNode(1, true)
		g.Cfg.RootKinds = saved
	} else {
		proto = g.GenNode(pd, false)
	}
	for proto.Kind == model.KPtr || proto.Kind == model.KCustom || proto.Kind == model.KPre {
		proto = g.GenNode(0, false)
	}
	proto.Via = ""
	use := 0
	clone := func() *model.Node {
		c := model.RoundTrip(*proto)
		copyWitness(g, proto, &c)
		markShare(&c, 1)
		// one schema object may serve destination types that declare the same fields in another order / with other tags
		if use > 0 && c.Kind == model.KStruct {
			if len(c.Fields)+len(c.Extra) >= 2 {
				c.TypeRot = rapid.IntRange(0, len(c.Fields)+len(c.Extra)-1).Draw(rt, "typerot")
			}
			for i := range c.Fields {
				switch rapid.IntRange(0, 3).Draw(rt, "retag") {
				case 0:
					c.Fields[i].Tags = map[string]string{"zog": fmt.Sprintf("u%d_%s", use, c.Fields[i].Key)}
				case 1:
					c.Fields[i].Tags = nil
				}
			}
		}
		use++
		return &c
	}
	root := &model.Node{Kind: model.KStruct}
	k := rapid.IntRange(2, 3).Draw(rt, "places")
	for i := 0; i < k; i++ {
		var n *model.Node
		switch rapid.IntRange(0, 2).Draw(rt, "place") {
		case 0:
			n = clone()
		case 1:
			n = &model.Node{Kind: model.KSlice, Elem: clone()}
			g.SetWitness(n, model.Int(2))
		default:
			n = &model.Node{Kind: model.KPtr, Elem: clone()}
		}
		root.Fields = append(root.Fields, model.Field{Key: fmt.Sprintf("f%d", i), Node: n})
	}
	root.Number()
	return root
}

func markShare(n *model.Node, id int) {
	// only the top node of the shared subtree needs the id: its children are built once with it
	n.ShareID = id
}

func copyWitness(g *model.Gen, from, to *model.Node) {
	g.CopyWitness(from, to)
	if from.Elem != nil {
		copyWitness(g, from.Elem, to.Elem)
	}
	for i := range from.Fields {
		copyWitness(g, from.Fields[i].Node, to.Fields[i].Node)
	}
}

func TestC17(t *testing.T) {
	h := hh.Start(t, "C17",
		"cases = random builder chains (Required/Optional/Default/Catch repeated in random order, tests with and without a preceding Not(), test options Message/MessageFunc/IssueCode/IssuePath/Params on random tests) applied call by call to real schemas of 8 kinds, at top level or as a struct field, with inputs around the witness; plus structs that reuse ONE schema object at 2-3 positions (field, slice element, behind pointer); non-trivial = a Not() followed by >=2 later tests, or >=2 modifier calls, or options on one of >=2 tests, or a shared object at >=2 places; distinct = FNV-1a of the case JSON",
		"the chain is read literally (last call wins; Not negates exactly the next test; options belong to their own call) into a model node; issues are compared as multisets of (path, code, type, message class, params) with the specification, destinations on success; shared objects are compared with the specification of independent copies",
		"Not() is only generated directly before one of the 12 negatable tests (what the NotStringSchema interface permits)")
	defer h.Finish()
	for _, mode := range []string{"parse", "validate"} {
		mode := mode
		hh.Sub(h, "chains-"+mode, h.N(25000, 120000), func(rt *rapid.T) c17Case { return genC17(rt, mode) }, propC17)
		hh.Sub(h, "shared-"+mode, h.N(8000, 40000), func(rt *rapid.T) c17Shared { return genShared(rt, mode) }, propC17Shared)
	}
	hh.Enumerate(h, "coercer-locality", c17CoercerCells, propC17Coercer)
	// the same clause over generated schemas: about a third of the nodes of every kind (string, numbers, bool, time,
	// slice; also below pointers) carry their own coercer, the others keep the default coercion; inputs of every
	// representation, including values that already have the destination's type
	ccfg := model.DefaultCfg("parse")
	ccfg.PCoercer, ccfg.PPost, ccfg.PJunk, ccfg.PCatch = 0.35, 0, 0, 0.05
	ccfg.PVary, ccfg.PAbsent, ccfg.PTestSat, ccfg.PLight = 0.2, 0.1, 0.95, 0.4
	hh.Sub(h, "coercer-generated", h.N(6000, 40000), func(rt *rapid.T) model.Case { return model.GenCase(rt, ccfg) }, func(c model.Case) hh.Verdict {
		_, bad, skip := conform(c, 1, true, true, false)
		if skip != "" {
			return hh.Verdict{Skip: skip}
		}
		if bad != "" {
			return hh.Fail("a node's own coercer and its neighbours' default coercion: %s", bad)
		}
		with, without := 0, 0
		c.Root.Walk(func(n *model.Node) {
			if model.IsPrimitive(n.Kind) || n.Kind == model.KSlice {
				if n.Coercer != "" {
					with++
				} else {
					without++
				}
			}
		})
		return hh.Verdict{Nontrivial: with > 0 && without > 0}
	})
}

// ---- WithCoercer locality (finite catalogue) ----

type c17Coercer struct {
	Shape string `json:"shape"`
}

func c17CoercerCells(yield func(c17Coercer)) {
	for _, s := range []string{"sibling-fields", "through-ptr", "slice-vs-elem", "elem-vs-slice", "nested-struct"} {
		yield(c17Coercer{Shape: s})
	}
}

func propC17Coercer(c c17Coercer) hh.Verdict {
	custom := func(tag string) z.CoercerFunc {
		return func(data any) (any, error) { return tag + fmt.Sprint(data), nil }
	}
	type D struct {
		A, B string
		P    *string
		L    []string
		N    struct{ A, B string }
	}
	var d D
	var errs z.ZogIssueMap
	want := D{}
	switch c.Shape {
	case "sibling-fields":
		s := z.Struct(z.Schema{"a": z.String(z.WithCoercer(custom("c:"))), "b": z.String()})
		errs = s.Parse(map[string]any{"a": 1, "b": 2}, &d)
		want.A, want.B = "c:1", "2"
	case "through-ptr":
		p := z.Ptr(z.String())
		z.WithCoercer(custom("c:"))(p)
		s := z.Struct(z.Schema{"p": p, "a": z.String()})
		errs = s.Parse(map[string]any{"p": 1, "a": 2}, &d)
		v := "c:1"
		want.P, want.A = &v, "2"
	case "slice-vs-elem":
		// coercer on the slice only: elements keep the default string coercion
		s := z.Struct(z.Schema{"l": z.Slice(z.String(), z.WithCoercer(func(data any) (any, error) { return []any{data, data}, nil })), "a": z.String()})
		errs = s.Parse(map[string]any{"l": 7, "a": 2}, &d)
		want.L, want.A = []string{"7", "7"}, "2"
	case "elem-vs-slice":
		s := z.Struct(z.Schema{"l": z.Slice(z.String(z.WithCoercer(custom("e:")))), "a": z.String()})
		errs = s.Parse(map[string]any{"l": 7, "a": 2}, &d)
		want.L, want.A = []string{"e:7"}, "2"
	case "nested-struct":
		s := z.Struct(z.Schema{"n": z.Struct(z.Schema{"a": z.String(z.WithCoercer(custom("c:"))), "b": z.String()}), "a": z.String()})
		errs = s.Parse(map[string]any{"n": map[string]any{"a": 1, "b": 2}, "a": 3}, &d)
		want.N.A, want.N.B, want.A = "c:1", "2", "3"
	}
	if errs != nil {
		return hh.Fail("%s: unexpected issues %v", c.Shape, z.Issues.SanitizeMap(errs))
	}
	if g, w := model.CanonJSON(reflect.ValueOf(d)), model.CanonJSON(reflect.ValueOf(want)); g != w {
		return hh.Fail("%s: got %s want %s", c.Shape, g, w)
	}
	return hh.Verdict{Nontrivial: true}
}
