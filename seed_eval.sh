#!/bin/bash
# usage: seed_eval.sh <worktree dir> <seed name> <primary property> [other check ids...]
# Extracts the seeded change + demo from an agent's worktree, re-verifies it in a fresh scratch worktree,
# then runs the named checks against it in /repo (apply, run, undo).
set -u
WT="$1"; NAME="$2"; shift 2; CHECKS="$@"
export GOFLAGS=-mod=mod GOPROXY=off GOSUMDB=off GOTOOLCHAIN=local
OUT=/verif/seeded/$NAME
mkdir -p "$OUT"
( cd "$WT" && git diff ) > "$OUT/patch.diff"
DEMO=$(cd "$WT" && git status --porcelain | grep '^??' | awk '{print $2}' | grep seeded_demo_test.go | head -1)
[ -z "$DEMO" ] && { echo "no demo file"; exit 3; }
mkdir -p "$OUT/demo/$(dirname "$DEMO")"; cp "$WT/$DEMO" "$OUT/demo/$DEMO"
PKG="./$(dirname "$DEMO")"
V=/tmp/wtv/$NAME
rm -rf "$V"; git -C /repo worktree prune; git -C /repo worktree add -q --detach "$V" HEAD || exit 3
res_apply=ok; res_build=ok; res_suite=pass; res_demo_with=?; res_demo_without=?
( cd "$V" && git apply "$OUT/patch.diff" ) || res_apply=FAILED
( cd "$V" && go build ./... ) >/dev/null 2>&1 || res_build=FAILED
( cd "$V" && go test -vet=off -count=1 ./... ) >/tmp/seed.suite 2>&1 || res_suite=FAIL
cp "$OUT/demo/$DEMO" "$V/$DEMO"
if ( cd "$V" && go test -vet=off -count=1 -run TestSeededDemo $PKG ) >/tmp/seed.demo1 2>&1; then res_demo_with=PASS; else res_demo_with=fail; fi
( cd "$V" && git checkout -q -- . )
if ( cd "$V" && go test -vet=off -count=1 -run TestSeededDemo $PKG ) >/tmp/seed.demo2 2>&1; then res_demo_without=pass; else res_demo_without=FAIL; fi
git -C /repo worktree remove --force "$V"
echo "[$NAME] apply=$res_apply build=$res_build suite=$res_suite demo_with_change=$res_demo_with demo_without=$res_demo_without"
valid=no
[ "$res_apply$res_build$res_suite$res_demo_with$res_demo_without" = "okokpassfailpass" ] && valid=yes
results=""
if [ "$valid" = yes ]; then
  cd /repo; [ -n "$(git status --porcelain)" ] && { echo "repo dirty"; exit 9; }
  git apply "$OUT/patch.diff"
  for id in $CHECKS; do
    out=$(cd /verif && VERIF_SHRINKTIME=${VERIF_SHRINKTIME:-3s} ./check "$id" quick 2>&1); rc=$?
    first=$(echo "$out" | grep -E "^  sub-check|data race" | head -1 | cut -c1-300)
    echo "   $id rc=$rc $first"
    results="$results{\"check\":\"$id\",\"rc\":$rc,\"first\":$(python3 -c 'import json,sys;print(json.dumps(sys.argv[1]))' "$first")},"
  done
  git checkout -q -- . ; git status --porcelain | head -2
  rm -rf /verif/replay/C[0-9][0-9]
fi
python3 - "$OUT" "$NAME" "$valid" "$res_apply $res_build $res_suite $res_demo_with $res_demo_without" "[${results%,}]" "$DEMO" <<'PY'
import json,sys,os
out,name,valid,ver,results,demo=sys.argv[1:7]
meta_path=os.path.join(out,'meta.json')
meta=json.load(open(meta_path)) if os.path.exists(meta_path) else {}
meta.update({"name":name,"valid":valid=="yes","verification":dict(zip(["apply","build","suite","demo_with_change","demo_without_change"],ver.split())),
  "demo_file":demo,"checks_run":json.loads(results),
  "what_i_ran":"fresh scratch worktree of /repo HEAD: git apply patch.diff; go build ./...; go test -vet=off -count=1 ./... (must pass); demo with change (must fail); demo without change (must pass); then in /repo: git apply, ./check <id> quick for each listed check, git checkout -- ."})
json.dump(meta,open(meta_path,'w'),indent=1)
PY
