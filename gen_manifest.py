#!/usr/bin/env python3
"""Regenerates MANIFEST.json from the table below (single source of truth for the interface)."""
import json, os

ROOT = os.path.dirname(os.path.abspath(__file__))

# id -> (technique, level text, level note, design ref)
RAPID = "property-based testing (pgregory.net/rapid): "
CHECKS = {
 "C01": (RAPID + "generated schema x input x mode; successful results re-validated by independent reference predicates",
         "Generated-input search over random schema trees and mostly-valid inputs in both modes, each executed several times (different field visit orders). Whenever zog reports no issues the destination is walked with reference predicates: every present node must satisfy every declared test, every Required/NotNil node must have had a value; only the documented exemptions (absent optional, caught) are allowed. One-directional by statement. Exploration within the generated bounds.",
         "Trusts model/preds.go (reference predicates) and the documented absent rule; no PostTransforms in these cases.",
         "DESIGN.md section 5 C01"),
 "C02": (RAPID + "generated schema x input x mode; multiset comparison of issues against an executable specification",
         "Generated-input search: random schema trees (all node kinds, modifiers, tests, nesting) with inputs derived from per-leaf witnesses and perturbed (absent forms, neighbours, un-coercible junk), each executed several times so that different field visit orders occur; the returned issues must equal, as a multiset of (path, code, type), the issues computed by an independent executable specification, and nil-ness must agree. Exploration only: absence of counter-examples within the generated bounds.",
         "Trusts the harness specification (model/spec.go, model/preds.go), written from the documentation; cases whose coercion the documentation leaves open are skipped and counted; PostTransforms never fail in these cases.",
         "DESIGN.md section 5 C02"),
 "C03": (RAPID + "representation matrix x schema options; whole-destination comparison with the documented coercion table over sentinel-prefilled destinations",
         "Generated inputs in every documented equivalent representation, WithCoercer, Time.Format layouts and global conf.Coercers overrides; destinations (generated with reflect.StructOf, including fields the schema does not name and non-nil pointers/slices) are pre-filled with sentinels; on success the whole destination must equal the specification's, and documented conversions must succeed. Exploration.",
         "Trusts the coercion table in model/spec.go (from the docs); out-of-range numerics are left to C18; doc-silent representations are skipped and counted.",
         "DESIGN.md section 5 C03"),
 "C04": ("exhaustive enumeration of the absence decision table + " + RAPID + "random compositions",
         "The finite decision table node kind x modifiers x input class x mode x placement is enumerated completely (about 8000 cells), observing required/not_nil issues, the sentinel-prefilled destination and how often each node's recorder test ran; random absence-heavy compositions extend it to deeper nestings. Exhaustive for the table, exploration beyond.",
         "Expectation computed by the executable specification of the statement's table; cells whose coercion is undocumented are skipped and counted.",
         "DESIGN.md section 5 C04"),
 "C05": (RAPID + "direct oracle + metamorphic comparison with the catch-free twin schema",
         "Schemas with catching primitives at random places; (a) no issue at a catching node's path and its destination equals the catch value iff its own pipeline fails (specification), (b) metamorphic non-interference: the same schema without Catch must produce the same issues away from the catching nodes and the same values away from them. Both modes, several runs per case. Exploration.",
         "No PostTransforms; struct/slice-level tests are data-independent in these cases so that the twin is comparable.",
         "DESIGN.md section 5 C05"),
 "C09": (RAPID + "metamorphic: permuted schema/input insertion orders x repeated runs must agree; visit orders observed",
         "Each case is built K times with permuted field insertion order and input-map insertion order and run R times; all runs must agree on issues (path, code, type, message), issue-map keys and, on success, the destination; $first must be one of the issues. The visit orders actually taken are observed through recorder tests and reported. Exploration; order coverage is measured, not assumed.",
         "Relies on Go's map iteration randomisation plus insertion-order forcing; excludes constructs that are order-dependent by the documented global PostTransform gating.",
         "DESIGN.md section 5 C09"),
 "C18": ("exhaustive boundary product + " + RAPID + "random magnitudes; exact big-number oracle",
         "Destination width x source representation x boundary magnitudes enumerated completely, plus random values; the outcome must be a coerce issue or the exact (truncated / correctly rounded) number, decided with math/big. Exhaustive over the listed boundary sets, exploration beyond.",
         "Rounding to nearest on float narrowing is accepted as the same number; strings outside plain decimal/exponent syntax are only checked when rejected or exactly modelled.",
         "DESIGN.md section 5 C18"),
 "C20": ("exhaustive sweeps over small alphabets/ranges + " + RAPID + "random strings and grammar-derived subjects; independent reference predicates",
         "Single-test schemas in both modes: rune-class tests over every rune U+0000..U+02FF and class-edge pairs, length tests over n x byte-length grid, numeric comparisons over all pairs of boundary sets (incl. NaN, Inf, -0), slice and time tests, random prefix/suffix/contains/oneof/match, and Email/UUID/URL over generated grammar members and single-edit near misses; issue present iff the reference predicate is false. Exhaustive for the sweeps, exploration for the random parts.",
         "Reference predicates in model/preds.go (hand-written recognisers, not regexes shared with zog); URL only over the certain classes; UUID version nibble not asserted.",
         "DESIGN.md section 5 C20"),
}

NOT_YET = "check not built yet in this round (planned, see DESIGN.md section 9)"

def main():
    props = [json.loads(l)["id"] for l in open(os.path.join(ROOT, "properties.jsonl")) if l.strip()]
    checks = []
    na = []
    for pid in props:
        if pid not in CHECKS:
            na.append({"property_id": pid, "reason": NOT_YET})
            continue
        tech, text, note, ref = CHECKS[pid]
        checks.append({
            "property_id": pid,
            "quick_cmd": f"./check {pid} quick",
            "thorough_cmd": f"./check {pid} thorough",
            "evidence_file": f"/verif/evidence/{pid}.json",
            "replay_cmd_template": f"./check {pid} --replay {{path}}",
            "engine": "rapid-harness",
            "level_claimed": {"category": "exploration", "text": text, "design_ref": ref},
            "level_note": note,
            "technique": tech,
        })
    m = {
        "version": 1,
        "setup_cmd": "./check --setup",
        "hooks": {
            "guard": "verif",
            "enable": "go test -tags verif (the tag currently guards no source in /repo: no hooks were needed)",
            "baseline_off_cmd": "cd /repo && go test -vet=off -count=1 ./...",
            "source_commits": [],
            "add_only": True,
        },
        "engines": [
            {"name": "rapid-harness", "path": "/verif/harness", "serves_properties": [c["property_id"] for c in checks],
             "kind_free_text": "Go module (pgregory.net/rapid v1.3.0) compiled against /repo via a replace directive; case language + builder + executable specification in harness/model, property tests in harness/props (+poolprops, raceprops), driver ./check"},
        ],
        "checks": checks,
        "not_applicable": na,
        "notes": "Exit codes of ./check: 0 held, 1 violation (VIOLATION line), 2 inconclusive (build failure / timeout). VERIF_SEED selects the rapid seed (0/unset = fixed default). Known findings: KNOWN_FINDINGS.txt.",
    }
    json.dump(m, open(os.path.join(ROOT, "MANIFEST.json"), "w"), indent=1)
    print(f"{len(checks)} checks, {len(na)} not_applicable")

main()
