#!/usr/bin/env python3
"""Regenerates MANIFEST.json from the table below (single source of truth for the interface)."""
import json, os

ROOT = os.path.dirname(os.path.abspath(__file__))

# id -> (technique, level text, level note, design ref)
RAPID = "property-based testing (pgregory.net/rapid): "
CHECKS = {
 "C01": (RAPID + "generated schema x input x mode; successful results re-validated by independent reference predicates",
         "Generated-input search over random schema trees and mostly-valid inputs in both modes, each executed several times (different field visit orders). Whenever zog reports no issues the destination is walked with reference predicates: every present node must satisfy every declared test, every Required/NotNil node must have had a value; only the documented exemptions (absent optional, caught) are allowed; Preprocess wrappers are looked through (the wrapped schema governs what the function returned). Every execution starts after a fixed process prelude (collected issues, a recovered panic in a nested callback). One-directional by statement. Exploration within the generated bounds.",
         "Trusts model/preds.go (reference predicates) and the documented absent rule; no PostTransforms in these cases.",
         "DESIGN.md section 5 C01"),
 "C02": (RAPID + "generated schema x input x mode; multiset comparison of issues against an executable specification",
         "Generated-input search: random schema trees (all node kinds, modifiers, tests, nesting) with inputs derived from per-leaf witnesses and perturbed (absent forms, neighbours, un-coercible junk), each executed several times so that different field visit orders occur; the returned issues must equal, as a multiset of (path, code, type), the issues computed by an independent executable specification, and nil-ness must agree. Cases include custom coercers, Preprocess wrappers, reusable z.TestFunc values specialised by field assignment, complex tests (z.Test{Func} reporting through ctx.AddIssue with ctx.Issue() or hand-built issues), schemas assembled with Merge/Extend/Pick/Omit, embedded destination fields, inputs as typed / user-defined Go maps and Go structs; every execution starts after, and its result is read again after, a fixed process prelude (collected and dropped issues of map- and list-returning executions, a recovered panic, an undecodable pointer-root request, three-level executions whose callbacks check what they are handed). Exploration only: absence of counter-examples within the generated bounds.",
         "Trusts the harness specification (model/spec.go, model/preds.go), written from the documentation; cases whose coercion the documentation leaves open are skipped and counted; PostTransforms never fail in these cases.",
         "DESIGN.md section 5 C02"),
 "C03": (RAPID + "representation matrix x schema options; whole-destination comparison with the documented coercion table over sentinel-prefilled destinations",
         "Generated inputs in every documented equivalent representation (incl. Go structs as data source), WithCoercer, Time.Format layouts and global conf.Coercers overrides; every value of the wild registry into a String schema must give its %v string; destinations (generated with reflect.StructOf, including fields the schema does not name and non-nil pointers/slices) are pre-filled with sentinels; on success the whole destination must equal the specification's, and documented conversions must succeed. Exploration.",
         "Trusts the coercion table in model/spec.go (from the docs); out-of-range numerics are left to C18; doc-silent representations are skipped and counted.",
         "DESIGN.md section 5 C03"),
 "C04": ("exhaustive enumeration of the absence decision table + " + RAPID + "random compositions",
         "The finite decision table node kind x modifiers x input class x mode x placement is enumerated completely (about 11000 cells), observing required/not_nil issues, the sentinel-prefilled destination and how often each node's recorder test ran; random absence-heavy compositions extend it to deeper nestings, and a third sub-check applies the absence rules to generated records through all six front ends (missing key / parameter / variable, []-suffixed parameters, the strings other systems use for \"nothing\", Preprocess wrappers that return nil). Exhaustive for the table, exploration beyond.",
         "Expectation computed by the executable specification of the statement's table; cells whose coercion is undocumented are skipped and counted.",
         "DESIGN.md section 5 C04"),
 "C05": (RAPID + "direct oracle + metamorphic comparison with the catch-free twin schema",
         "Schemas with catching primitives at random places; (a) no issue at a catching node's path and its destination equals the catch value iff its own pipeline fails (specification), (b) metamorphic non-interference: the same schema without Catch must produce the same issues away from the catching nodes and the same values (and messages) away from them; further sub-checks add PostTransforms to the caught and the neighbouring nodes (with-transforms-*). Both modes, several runs per case, after a process prelude. Exploration.",
         "PostTransforms only in the with-transforms sub-checks; no empty schema keys (their issue path coincides with the parent's); struct/slice-level tests are data-independent in these cases so that the twin is comparable.",
         "DESIGN.md section 5 C05"),
 "C09": (RAPID + "metamorphic: permuted schema/input insertion orders x repeated runs must agree; visit orders observed",
         "Each case is built K times with permuted field insertion order and input-map insertion order and run R times; all runs must agree on issues (path, code, type, message), issue-map keys and, on success, the destination (a third of the cases let sibling fields report one shared issue value from complex tests); $first must be one of the issues. A quarter of the cases run under i18n with six languages (four regional variants of one) and request configured, unconfigured and related language tags. The visit orders actually taken are observed through recorder tests and reported. Exploration; order coverage is measured, not assumed.",
         "Relies on Go's map iteration randomisation plus insertion-order forcing; excludes constructs that are order-dependent by the documented global PostTransform gating.",
         "DESIGN.md section 5 C09"),
 "C18": ("exhaustive boundary product + " + RAPID + "random magnitudes; exact big-number oracle",
         "Destination width x source representation x boundary magnitudes enumerated completely, plus random values; the outcome must be a coerce issue or the exact (truncated / correctly rounded) number, decided with math/big; padded numeric strings, json.Number, near-integer floats, exponents up to 1e60, numbers inside typed maps (map[string]any and typed Go maps of the value's own type) and typed slices, numeric user types whose String() prints another number, *big.Float. Exhaustive over the listed boundary sets, exploration beyond.",
         "Rounding to nearest on float narrowing is accepted as the same number; strings outside plain decimal/exponent syntax are only checked when rejected or exactly modelled.",
         "DESIGN.md section 5 C18"),
 "C06": (RAPID + "wild-value generator (registry of ~120 Go values spliced into valid inputs, hostile JSON / form / query / env text) + exhaustive wild-value x root-kind product; oracle: recover() around Parse",
         "Well-formed (schema, destination) pairs (all node kinds, >8 fields, keys up to 64 bytes, Preprocess, Custom) are fed Go values in which random subtrees are replaced by values of unusual dynamic types, and documents/strings through every front end (chains of executions on one schema, each followed by the process prelude; env / form / query values from a pool of hostile short strings: every ASCII punctuation character alone, unbalanced quotes and brackets, escapes); any panic is a violation. The registry x 17 root kinds product is enumerated completely, so is every one-byte body and 1600 two-byte bodies through both JSON front ends, and so is Custom[T] for 20 shapes of T (arrays, named types, structs, slices, maps, pointers, interfaces) x registry x 5 positions. Exploration (plus native fuzzing of the byte-level front ends in the thorough tier).",
         "Quantifies over a finite registry of Go types; harness callbacks are nil-safe so an observed panic is zog's; termination guarded by a time limit (exit 2).",
         "DESIGN.md section 5 C06"),
 "C07": (RAPID + "generated call histories (model = same call on cleared pools) with fault injection into the sync.Pools",
         "Histories of calls (incl. zjson documents, urlencoded bodies through zhttp, and calls that reuse an earlier call's schema OBJECT with another destination type), Collect*/Sanitize*AndCollect of earlier results, forced GC, panicking user callbacks (eight variants: pointer roots, Validate, list elements, PostTransform, custom function, Preprocess, the documented missing-field panic), calls made from inside a callback of another execution, and injection of dirty recycled objects (every exported field junk) into each of the seven pools, calls whose single issue comes from a failing PostTransform, Preprocess roots, re-observation of results held from earlier calls; after every call the complete observable result (all issue fields, destination, context values seen by callbacks) must equal the result of the same call on freshly cleared pools with a never-used schema object. Exploration over histories; pool contents are owned deterministically through the exported pool variables.",
         "Only this package imports zog/internals. Dirty objects are limited to shapes reachable through zog's API. Pristine reference computed with internals.ClearPools().",
         "DESIGN.md section 5 C07"),
 "C08": (RAPID + "generated concurrent workloads on shared schema objects under the Go race detector, per-call comparison with sequential results",
         "Workloads of 8-24 goroutines hammering 3-8 shared schema objects with private data (Go values and zjson documents, per-call formatters, i18n installed with per-call languages in a third of the workloads, results handed back through Collect* or Sanitize*AndCollect whose returned messages must be the call's own, lists that grow from workload to workload, schemas whose PostTransform fails, lists of lists with a Default and writing PostTransforms called without a list), started on COLD library state; the test binary is built with -race: any race report, any call whose issues differ from the executable specification, from a concurrent call of the same input, or from the same call alone afterwards, is a violation. Random schedule sampling amplified by the race detector's happens-before analysis; it cannot show absence of schedule-dependent bugs.",
         "The harness does not own the scheduler; a schedule-dependent failure is reported with the workload and the race report, not a replayable interleaving.",
         "DESIGN.md section 5 C08"),
 "C10": (RAPID + "generated nested schemas x tag sets x front ends; structural invariants on the issue map + path comparison with the specification + sanitizer round trip",
         "Every returned map is checked for well-formedness (each issue exactly once under its Path key, $root, $first singleton identical to the first issue recorded, no empty lists, nil iff no issue); paths must equal the documented key chain (source tag, zog tag, schema key, [i], IssuePath) through map, zjson, zhttp JSON/form/query and zenv and in Validate; SanitizeMap/List keep keys and order. Further sub-checks: executions whose only issue stems from a PostTransform that returned an error / a wrapped issue / a ZogIssue with or without Path, or reported through ctx.AddIssue(ctx.Issue()), also on catching nodes (post-errors-*), container-heavy schemas of depth 6 executed on empty object pools (deep-cold-*), and chains of up to 40 path segments with long and empty keys (long-paths-*); maps a caller still holds are re-checked after later executions. Exploration. Two listed open findings are probed and their trigger classes not generated.",
         "Expected paths from model/spec.go with the documented tag priority; tag values without dots (commas allowed: the whole tag value is the key).",
         "DESIGN.md section 5 C10"),
 "C11": ("exhaustive catalogue of built-in tests x types x formatter configurations + " + RAPID + "random precedence of formatter levels",
         "Part A enumerates every built-in test of every schema type, required / not_nil / coerce and the front-end decode failures, in both modes and eight formatter configurations (default; i18n with language en / es / a regional key es-MX / none / unknown; i18n with a configured context key named or not): code, type, params, value reference, non-empty message without placeholders. The message must be the rendering of THIS cell's language. A second enumeration repeats the test / Required cells with a MessageFunc that renders the issue it is handed: what it saw must be what the issue finally says. Part B: random schemas with marker messages at test, execution and global (plain or i18n) level: each issue must carry the most specific marker and the language of this execution's context. A further enumeration edits the caller's OneOf option slice after construction: the list an issue reports must be the list the test decides by. Part C: consecutive undecodable requests under six formatter configurations must each carry their own execution's message. Exhaustive for the catalogue, exploration for precedence.",
         "Expected codes and param keys from zconst / reference.md (model/preds.go DefaultParams); Bool True/False accept either documented code.",
         "DESIGN.md section 5 C11"),
 "C12": (RAPID + "recorder callbacks everywhere; invariants over the totally ordered event log of one execution",
         "Spec-free invariants over the log of callback invocations and issue creations: argument contract (value for primitive tests, non-nil pointer with the address of the governed destination otherwise, computed by reflection), ctx.Get equals exactly this call's WithCtxValue (a key passed twice: the last value), PostTransform discipline (declaration order, at most once, stop at first error, never after an issue, all on success, also for a node that used its Catch value, error wrapped at the node's path even when the returned error wraps or joins a ZogIssue), Preprocess failure (Parse: string-typed and any-typed functions; Validate: pointer-typed functions) silences the wrapped schema and every implied Preprocess issue is reported; every test / custom function is called exactly as often as the documented pipeline says (Default before Required, not where the value is absent or un-coercible). One schema object placed at several positions with different destination types, callbacks on user-defined named primitive types, and sibling derivations (Pick/Omit/Extend made from the schema and given their own callbacks, which must never run) are covered by dedicated sub-checks. Both modes, all nestings. Exploration.",
         "Recorders are supplied by the harness and never panic; tests carry no Message so every issue passes the logging execution formatter.",
         "DESIGN.md section 5 C12"),
 "C13": (RAPID + "differential: Validate(&v) versus Parse(toMap(v), &fresh) on fully populated values",
         "For generated schemas (no Preprocess) and fully populated typed values, validating in place and parsing the same value presented as a map must report the same (path, code, type, message) multiset and leave equal values (custom functions may normalise the value through their pointer); a second sub-check places one failing PostTransform (error, wrapped error, ZogIssue with or without Path) at a random node; a third uses linear (single-path) schemas with infinities and extreme values. Exploration.",
         "Values compared only where the documented global PostTransform gating makes them order-independent.",
         "DESIGN.md section 5 C13"),
 "C14": (RAPID + "one logical record rendered through six front ends; each compared with the specification and all with each other",
         "A generated logical record and schema with random json/form/query/env/zog tags are rendered as Go map, zjson document, zhttp JSON body, form, query string and environment; each rendering must match the specification for the record as that front end presents it and all renderings must agree on success, number of issues and destination; a sub-check sends large documents (hundreds of fields / long lists / long multibyte strings) through the document-carrying front ends, with bodies of known, unknown and chunked length. Exploration. Three listed open findings are probed and their trigger classes not generated.",
         "Renderings a front end cannot express are skipped per front end and counted; strings are valid UTF-8 without edge white space.",
         "DESIGN.md section 5 C14"),
 "C15": ("exhaustive product method x Content-Type x body x query (about 36 000 requests) + " + RAPID + "random requests; source sentinels and recording coercers",
         "Every request of the product (plus reduced products with a z.Ptr(z.Struct) root and with requests a middleware has already parsed through r.ParseForm / r.FormValue, incl. well-formed multipart bodies; Content-Type parameters of any shape; every case starts after an earlier invalid request whose issues were collected) is sent through zhttp.Request into a schema whose coercers record the raw value handed to each field; the expected source follows the statement's dispatch table (net/http decides which methods read a form body); undecodable bodies must give exactly one invalid_json/invalid_form issue at $root with the schema not run and the sentinel destination untouched; {} means all absent; repeated or []-suffixed parameters are lists, single ones strings, missing ones absent; schemas without fields still decode the request; bodies of unknown length (chunked, wrapped readers) are read to the end; JSON documents padded with every kind of white space (JSON's four and look-alikes) before, after and inside. Exhaustive over the product, exploration for random fragments.",
         "Content-Type spellings outside the documented form and JSON followed by trailing data are outside the domain (skipped).",
         "DESIGN.md section 5 C15"),
 "C16": (RAPID + "model-based state machine over derivation histories; every live schema re-probed against a hand-written equivalent after every step",
         "Histories of base (a sixth widened to 9 and more fields) / Pick / Omit (also removing nothing) / Extend / Merge / later TestFunc / PostTransform (with test options) / hooks-only bases without fields over a growing set of live schemas, keys spelled lower-case, Go-style or mixed; a model (field map, test ids, PostTransform ids) is updated with the documented set semantics and after every step every live schema must behave like a schema written out by hand from its model (issues, destination, callback sequence); Merge's operands are handed over as a spread slice with spare capacity, which must stay as the caller built it. Exploration over histories.",
         "Keys picked/omitted are the operand's own keys.",
         "DESIGN.md section 5 C16"),
 "C17": (RAPID + "random builder chains applied call by call, read literally into a model node and compared with the specification; shared schema objects; WithCoercer locality catalogue",
         "Random chains of Required/Optional/Default/Catch/Not()/tests/test options on real schemas of 8 kinds; issues compared as multisets of (path, code, type, message class, params), destinations on success; every chain's schema is used a second time after the first result was handed back through Collect; structs reusing ONE schema object at 2-3 places are compared with the specification of independent copies; a finite catalogue and a generated sub-check (a third of the nodes of every kind carry their own coercer) check that WithCoercer acts on its own schema only (siblings, through Ptr, slice vs element, nested); Message / MessageFunc options in either order, strict-mode Bool codes, tests with empty Params. Exploration.",
         "Not() only generated directly before a negatable test (what the NotStringSchema interface allows).",
         "DESIGN.md section 5 C17"),
 "C19": (RAPID + "execution histories with deep snapshots of inputs and schema-owned values, destination scribbling, verbatim repeats",
         "Histories of 2-6 executions on one schema: the input's deep snapshot and the snapshots of every reference-typed value the schema was given (slice defaults, OneOf lists) must be unchanged after each call and after the harness overwrites the returned destination (incl. spare slice capacity); a verbatim repeated execution must give the same result; Validate without Default/Catch/PostTransform leaves the value unchanged. Inputs include Go values of the destination's own type; a second sub-check treats requests handed to zhttp as input data (parsed form, method, URL, headers and length unchanged, same result when parsed again; every form record also as an undecodable twin with Content-Type parameters); per-execution formatters are markers that must not survive into the next execution; a third sub-check compares the whole value after Validate with the specification's (also with issues, also below a Preprocess whose function failed). Exploration.",
         "Schema-owned values are observed through references kept by the harness.",
         "DESIGN.md section 5 C19"),
 "C20": ("exhaustive sweeps over small alphabets/ranges + " + RAPID + "random strings and grammar-derived subjects; independent reference predicates",
         "Single-test schemas in both modes: rune-class tests over every rune U+0000..U+02FF and class-edge pairs, length tests over n x byte-length grid, numeric comparisons over all pairs of boundary sets (incl. NaN, Inf, -0), slice and time tests, the same tests on user-defined named types (StringSchema[T], NumberSchema[T], BoolSchema[T]) with Required on and off, pointer-element slices with pointer needles, random prefix/suffix/contains/oneof/match, and Email/UUID/URL over generated grammar members and single-edit near misses, every byte at every position class of the Email and UUID grammars, an enumerated product of URL shapes (port, path, query, fragment), time comparisons over instants from year 1 to 9999, the same kind of test twice on one node, failing elements beside a list-level test; issue present iff the reference predicate is false. Exhaustive for the sweeps, exploration for the random parts.",
         "Reference predicates in model/preds.go (hand-written recognisers, not regexes shared with zog); URL only over the certain classes; UUID version nibble not asserted.",
         "DESIGN.md section 5 C20"),
}

NOT_YET = "check not built yet in this round (planned, see DESIGN.md section 9)"

def main():
    props = [json.loads(l)["id"] for l in open(os.path.join(ROOT, "properties.jsonl")) if l.strip()]
    checks = []
    na = []
    for pid in props:
        if pid not in CHECKS:
            na.append({"property_id": pid, "reason": NOT_YET})
            continue
        tech, text, note, ref = CHECKS[pid]
        checks.append({
            "property_id": pid,
            "quick_cmd": f"./check {pid} quick",
            "thorough_cmd": f"./check {pid} thorough",
            "evidence_file": f"/verif/evidence/{pid}.json",
            "replay_cmd_template": f"./check {pid} --replay {{path}}",
            "engine": "rapid-harness",
            "level_claimed": {"category": "exploration", "text": text, "design_ref": ref},
            "level_note": note,
            "technique": tech,
        })
    m = {
        "version": 1,
        "setup_cmd": "./check --setup",
        "hooks": {
            "guard": "verif",
            "enable": "go test -tags verif (the tag currently guards no source in /repo: no hooks were needed)",
            "baseline_off_cmd": "cd /repo && go test -vet=off -count=1 ./...",
            "source_commits": [],
            "add_only": True,
        },
        "engines": [
            {"name": "rapid-harness", "path": "/verif/harness", "serves_properties": [c["property_id"] for c in checks],
             "kind_free_text": "Go module (pgregory.net/rapid v1.3.0) compiled against /repo via a replace directive; case language + builder + executable specification in harness/model, property tests in harness/props (+poolprops, raceprops), driver ./check"},
        ],
        "checks": checks,
        "not_applicable": na,
        "notes": "Exit codes of ./check: 0 held, 1 violation (VIOLATION line), 2 inconclusive (build failure / timeout). VERIF_SEED selects the rapid seed (0/unset = fixed default). Known findings: KNOWN_FINDINGS.txt. evidence/thorough/ keeps the evidence of the last complete thorough-tier run on the unchanged tree (the files in evidence/ are rewritten by every run). seeded/ holds 260 independently seeded changes with the checks that catch them (DESIGN.md 10.6).",
    }
    json.dump(m, open(os.path.join(ROOT, "MANIFEST.json"), "w"), indent=1)
    print(f"{len(checks)} checks, {len(na)} not_applicable")

main()
