#!/usr/bin/env python3
"""Regenerates MANIFEST.json from the table below (single source of truth for the interface)."""
import json, os

ROOT = os.path.dirname(os.path.abspath(__file__))

# id -> (technique, level text, level note, design ref)
CHECKS = {
 "C02": ("property-based testing (rapid): generated schema x input x mode, multiset comparison of issues against an executable specification",
         "Generated-input search: random schema trees (all node kinds, modifiers, tests, nesting) with inputs derived from per-leaf witnesses and perturbed (absent forms, neighbours, un-coercible junk), each executed several times so that different field visit orders occur; the returned issues must equal, as a multiset of (path, code, type), the issues computed by an independent executable specification, and nil-ness must agree. Exploration only: it shows the absence of counter-examples within the generated bounds, not for all schemas.",
         "Trusts the harness specification (model/spec.go, model/preds.go), written from the documentation; cases whose coercion the documentation leaves open are skipped and counted; PostTransforms never fail in these cases.",
         "DESIGN.md section 5 C02"),
}

NOT_YET = "check not built yet in this round (planned, see DESIGN.md section 9)"

def main():
    props = [json.loads(l)["id"] for l in open(os.path.join(ROOT, "properties.jsonl")) if l.strip()]
    checks = []
    na = []
    for pid in props:
        if pid not in CHECKS:
            na.append({"property_id": pid, "reason": NOT_YET})
            continue
        tech, text, note, ref = CHECKS[pid]
        checks.append({
            "property_id": pid,
            "quick_cmd": f"./check {pid} quick",
            "thorough_cmd": f"./check {pid} thorough",
            "evidence_file": f"/verif/evidence/{pid}.json",
            "replay_cmd_template": f"./check {pid} --replay {{path}}",
            "engine": "rapid-harness",
            "level_claimed": {"category": "exploration", "text": text, "design_ref": ref},
            "level_note": note,
            "technique": tech,
        })
    m = {
        "version": 1,
        "setup_cmd": "./check --setup",
        "hooks": {
            "guard": "verif",
            "enable": "go test -tags verif (the tag currently guards no source in /repo: no hooks were needed)",
            "baseline_off_cmd": "cd /repo && go test -vet=off -count=1 ./...",
            "source_commits": [],
            "add_only": True,
        },
        "engines": [
            {"name": "rapid-harness", "path": "/verif/harness", "serves_properties": [c["property_id"] for c in checks],
             "kind_free_text": "Go module (pgregory.net/rapid v1.3.0) compiled against /repo via a replace directive; case language + builder + executable specification in harness/model, property tests in harness/props (+poolprops, raceprops), driver ./check"},
        ],
        "checks": checks,
        "not_applicable": na,
        "notes": "Exit codes of ./check: 0 held, 1 violation (VIOLATION line), 2 inconclusive (build failure / timeout). VERIF_SEED selects the rapid seed (0/unset = fixed default). Known findings: KNOWN_FINDINGS.txt.",
    }
    json.dump(m, open(os.path.join(ROOT, "MANIFEST.json"), "w"), indent=1)
    print(f"{len(checks)} checks, {len(na)} not_applicable")

main()
