#!/opt/veriftools/pyvenv/bin/python3
import json, jsonschema, glob, sys
jsonschema.validate(json.load(open('/verif/MANIFEST.json')), json.load(open('/root/.vp/MANIFEST.schema.json')))
es = json.load(open('/root/.vp/EVIDENCE.schema.json'))
bad = 0
for f in sorted(glob.glob('/verif/evidence/*.json')):
    try:
        jsonschema.validate(json.load(open(f)), es)
    except Exception as e:
        bad += 1; print('INVALID', f, str(e)[:300])
print('manifest valid; evidence files invalid:', bad)
sys.exit(1 if bad else 0)
