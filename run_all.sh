#!/bin/bash
# usage: run_all.sh [tier] — runs every check once, prints one line per check
tier="${1:-quick}"
cd "$(dirname "$0")"
for id in $(python3 -c "import json;print(' '.join(c['property_id'] for c in json.load(open('MANIFEST.json'))['checks']))"); do
  s=$(date +%s.%N)
  out=$(./check $id $tier 2>&1); rc=$?
  e=$(date +%s.%N)
  printf "%s rc=%d %.1fs %s\n" $id $rc $(echo "$e - $s" | bc) "$(echo "$out" | grep -cE '^KNOWN-FINDING') known"
  [ $rc -ne 0 ] && echo "$out" | head -8
done
