#!/bin/bash
# usage: seed_recheck.sh <seed name>...   re-runs each seed's own property check (quick) against the seeded change
# and records the outcome in seeded/<name>/meta.json ("recheck"). Applies to /repo, always undoes.
export GOFLAGS=-mod=mod GOPROXY=off GOSUMDB=off GOTOOLCHAIN=local
for NAME in "$@"; do
  ID=${NAME%%-*}
  cd /repo; [ -n "$(git status --porcelain)" ] && { echo "repo dirty"; exit 9; }
  git apply /verif/seeded/$NAME/patch.diff || { echo "$NAME: patch does not apply"; continue; }
  out=$(cd /verif && VERIF_SHRINKTIME=${VERIF_SHRINKTIME:-2s} ./check "$ID" quick 2>&1); rc=$?
  git checkout -q -- . ; git status --porcelain | head -2
  first=$(echo "$out" | grep -E "^  sub-check|data race" | head -1 | cut -c1-300)
  echo "$NAME $ID rc=$rc $first"
  python3 - "$NAME" "$ID" "$rc" "$first" <<'PY'
import json,sys
name,cid,rc,first=sys.argv[1:5]
p=f'/verif/seeded/{name}/meta.json'
m=json.load(open(p)); m['recheck']={'check':cid,'rc':int(rc),'first':first,'note':'own check (quick tier) re-run after the strengthenings of DESIGN 10.6'}
json.dump(m,open(p,'w'),indent=1)
PY
  rm -rf /verif/replay/C[0-9][0-9]
done
