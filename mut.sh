#!/bin/bash
# usage: mut.sh <patch-file | 'sed:<file>:<expr>'> <check-id>...   applies a change to /repo, runs the quick checks, restores /repo
set -u
spec="$1"; shift
cd /repo
if [ -n "$(git status --porcelain)" ]; then echo "repo dirty, abort"; exit 9; fi
case "$spec" in
  sed:*) f=$(echo "$spec" | cut -d: -f2); e=$(echo "$spec" | cut -d: -f3-); sed -i "$e" "$f" ;;
  revert:*) git revert --no-commit "${spec#revert:}" >/dev/null 2>&1 || { echo "revert failed"; git revert --abort 2>/dev/null; git checkout -- .; exit 9; } ;;
  *) git apply "$spec" || { echo "patch failed"; exit 9; } ;;
esac
git diff --stat HEAD | tail -1
if ! go build ./... 2>/tmp/mut.build; then echo "MUTANT DOES NOT COMPILE"; head -5 /tmp/mut.build; git reset -q --hard HEAD; exit 8; fi
if go test -vet=off -count=1 ./... >/tmp/mut.test 2>&1; then echo "suite: pass"; else echo "suite: FAIL (mutant is visible to existing tests)"; grep -E "^(--- FAIL|FAIL)" /tmp/mut.test | head -5; fi
for id in "$@"; do
  out=$(cd /verif && VERIF_SHRINKTIME=${VERIF_SHRINKTIME:-2s} ./check "$id" quick 2>&1); rc=$?
  echo "== $id rc=$rc"; echo "$out" | grep -E "^(VIOLATION|  sub-check|KNOWN|INCONCLUSIVE)" | cut -c1-400 | head -4
done
git reset -q --hard HEAD
rm -rf /verif/replay/C[0-9][0-9]
git status --porcelain | head -3
