#!/usr/bin/env python3
"""Merge the per-shard evidence files of a thorough run into evidence/<id>.json."""
import json, sys, glob, os
pid, sdir, out = sys.argv[1], sys.argv[2], sys.argv[3]
files = sorted(glob.glob(os.path.join(sdir, "ev.*.json")))
if not files:
    print("INCONCLUSIVE: no shard wrote evidence"); sys.exit(2)
merged = None
hashes = set()
for f in files:
    ev = json.load(open(f))
    cov = ev["coverage"]
    hashes.update(cov.pop("nontrivial_hashes", []))
    if merged is None:
        merged = ev
        continue
    mc = merged["coverage"]
    mc["evaluations"] += cov["evaluations"]
    mc["skipped_outside_domain"] = mc.get("skipped_outside_domain", 0) + cov.get("skipped_outside_domain", 0)
    for name, s in cov.get("subchecks", {}).items():
        ms = mc["subchecks"].setdefault(name, {"evaluations": 0, "nontrivial_evaluations": 0, "skipped_outside_domain": 0, "replayed_saved_cases": 0, "classes": {}})
        for k in ("evaluations", "nontrivial_evaluations", "skipped_outside_domain", "replayed_saved_cases"):
            ms[k] = ms.get(k, 0) + s.get(k, 0)
        for k, v in (s.get("classes") or {}).items():
            ms.setdefault("classes", {})
            ms["classes"][k] = ms["classes"].get(k, 0) + v
    if len(mc.get("samples", [])) < 6:
        mc["samples"] = (mc.get("samples") or []) + (cov.get("samples") or [])[:1]
    for k, v in cov.items():
        if k.startswith("sum_") and isinstance(v, (int, float)):
            mc[k] = mc.get(k, 0) + v
    merged["wall_s"] = max(merged["wall_s"], ev["wall_s"])
    merged["violations"] = merged.get("violations", 0) + ev.get("violations", 0)
mc = merged["coverage"]
if hashes:
    mc["distinct_nontrivial"] = len(hashes)
mc["shards"] = len(files)
mc.pop("exhaustive", None) if len(files) > 1 and not all(json.load(open(f))["coverage"].get("exhaustive") for f in files) else None
json.dump(merged, open(out, "w"), indent=1)
